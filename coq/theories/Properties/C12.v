From GV Require Import Common.Outcome C12.HeaderModel C12.Spec C12.Proofs.
From GV Require Import C12.Conv C12.ConvSpec C12.ConvProofs.
From GV Require Import C12.CtorWsSpec C12.CtorWsProofs.
From GV Require C19.DiagSpec C19.DiagProofs.
From GV Require C10.YpSpec C10.YpTotal C11.Spec C11.Proofs C11.TotalProofs.

From GV Require Import Common.Outcome.
From GV Require C10.YpSpansSpec C10.YpSpans C11.ErrSpansSpec C11.ErrSpans.
Theorem C12_header_total : header_total_stmt.
Proof. exact header_total. Qed.
Print Assumptions C12_header_total.

Theorem C12_header_never_panics : header_never_panics_stmt.
Proof. exact header_never_panics. Qed.
Print Assumptions C12_header_never_panics.

Theorem C12_header_spans_wellformed : header_spans_wellformed_stmt.
Proof. exact header_spans_wellformed. Qed.
Print Assumptions C12_header_spans_wellformed.

Theorem C12_header_depth_bounded : header_depth_bounded_stmt.
Proof. exact header_depth_bounded. Qed.
Print Assumptions C12_header_depth_bounded.

Theorem C12_header_depth_unbounded_refuted : header_depth_unbounded_refuted_stmt.
Proof. exact header_depth_unbounded_refuted. Qed.
Print Assumptions C12_header_depth_unbounded_refuted.

Theorem C12_header_depth_bound_tight : header_depth_bound_tight_stmt.
Proof. exact header_depth_bound_tight. Qed.
Print Assumptions C12_header_depth_bound_tight.

Theorem C12_header_total_refuted : header_total_refuted_stmt.
Proof. exact header_total_refuted. Qed.
Print Assumptions C12_header_total_refuted.

Theorem C12_header_orig_diverges : header_orig_diverges_stmt.
Proof. exact header_orig_diverges. Qed.
Print Assumptions C12_header_orig_diverges.

Theorem C12_header_orig_panics : header_orig_panics_stmt.
Proof. exact header_orig_panics. Qed.
Print Assumptions C12_header_orig_panics.

Theorem C12_slice_from_spec : slice_from_stmt.
Proof. exact slice_from_spec. Qed.
Print Assumptions C12_slice_from_spec.

Theorem C12_slice_from_panics : slice_from_panics_stmt.
Proof. exact slice_from_panics. Qed.
Print Assumptions C12_slice_from_panics.

Theorem C12_re_ws_spec : re_ws_stmt.
Proof. exact re_ws_spec. Qed.
Print Assumptions C12_re_ws_spec.

Theorem C12_re_name_spec : re_name_stmt.
Proof. exact re_name_spec. Qed.
Print Assumptions C12_re_name_spec.

Theorem C12_re_digits_spec : re_digits_stmt.
Proof. exact re_digits_spec. Qed.
Print Assumptions C12_re_digits_spec.

Theorem C12_re_string_spec : re_string_stmt.
Proof. exact re_string_spec. Qed.
Print Assumptions C12_re_string_spec.

(* totality of the yacc and lex specification parsers: the theorems proved about
   the C10 (text -> AST) and C11 (lex spec) mirrors, re-exported here because C12
   quantifies over all three parsers *)
Theorem C12_yacc_parse_total : C10.YpSpec.yacc_parse_total_stmt.
Proof. exact C10.YpTotal.yacc_parse_total. Qed.
Print Assumptions C12_yacc_parse_total.

Theorem C12_lex_parse_total : C11.Spec.lex_parse_total_stmt.
Proof. exact C11.TotalProofs.lex_parse_total. Qed.
Print Assumptions C12_lex_parse_total.

Theorem C12_lex_errs_nonempty : C11.Spec.lex_errs_nonempty_stmt.
Proof. exact C11.Proofs.lex_errs_nonempty. Qed.
Print Assumptions C12_lex_errs_nonempty.

(* span well-formedness of the yacc and lex parsers' errors, warnings and AST spans *)
(* C12 — well-formed spans of the yacc and lex specification parsers (to be
   merged into Properties/C12.v): every span carried by an error, a warning or
   the AST satisfies start <= end <= |text| on character boundaries. *)

Theorem C12_yacc_error_spans_wellformed : C10.YpSpansSpec.yacc_error_spans_wellformed_stmt.
Proof. exact C10.YpSpans.yacc_error_spans_wellformed. Qed.
Print Assumptions C12_yacc_error_spans_wellformed.

Theorem C12_yacc_action_span_boundary_fixed : C10.YpSpansSpec.yacc_action_span_boundary_fixed_stmt.
Proof. exact C10.YpSpans.yacc_action_span_boundary_fixed. Qed.
Print Assumptions C12_yacc_action_span_boundary_fixed.

Theorem C12_yacc_action_span_boundary_refuted : C10.YpSpansSpec.yacc_action_span_boundary_refuted_stmt.
Proof. exact C10.YpSpans.yacc_action_span_boundary_refuted. Qed.
Print Assumptions C12_yacc_action_span_boundary_refuted.

Theorem C12_yacc_spans_example : C10.YpSpansSpec.yacc_spans_example_stmt.
Proof. exact C10.YpSpans.yacc_spans_example. Qed.
Print Assumptions C12_yacc_spans_example.

Theorem C12_lex_error_spans_wellformed : C11.ErrSpansSpec.lex_error_spans_wellformed_stmt.
Proof. exact C11.ErrSpans.lex_error_spans_wellformed. Qed.
Print Assumptions C12_lex_error_spans_wellformed.

Theorem C12_lex_error_spans_refuted : C11.ErrSpansSpec.lex_error_spans_refuted_stmt.
Proof. exact C11.ErrSpans.lex_error_spans_refuted. Qed.
Print Assumptions C12_lex_error_spans_refuted.

Theorem C12_lex_error_spans_target_refuted : C11.ErrSpansSpec.lex_error_spans_target_refuted_stmt.
Proof. exact C11.ErrSpans.lex_error_spans_target_refuted. Qed.
Print Assumptions C12_lex_error_spans_target_refuted.

Theorem C12_lex_error_spans_example : C11.ErrSpansSpec.lex_error_spans_example_stmt.
Proof. exact C11.ErrSpans.lex_error_spans_example. Qed.
Print Assumptions C12_lex_error_spans_example.

(* "... so it can always be rendered": the conversion of a parsed %grmtools value
   into an enum (YaccKind::try_from in ASTWithValidityInfo::from_str /
   YaccGrammar::from_str; SerialisationFormat::try_from in CTParserBuilder) puts
   the spans of ALL faulty components into ONE error of SpansKind::Error — up to
   four of them — so a renderer of what the parsers return must be total in the
   number of spans whatever the SpansKind *)
Theorem C12_str_eqb_spec : str_eqb_stmt.
Proof. exact str_eqb_spec. Qed.
Print Assumptions C12_str_eqb_spec.

Theorem C12_yacckind_conv_ok_iff : yacckind_conv_ok_iff_stmt.
Proof. exact yacckind_conv_ok_iff. Qed.
Print Assumptions C12_yacckind_conv_ok_iff.

Theorem C12_yacckind_conv_err_spans : yacckind_conv_err_spans_stmt.
Proof. exact yacckind_conv_err_spans. Qed.
Print Assumptions C12_yacckind_conv_err_spans.

Theorem C12_yk_components_cover : yk_components_cover_stmt.
Proof. exact yk_components_cover. Qed.
Print Assumptions C12_yk_components_cover.

Theorem C12_serformat_conv_spec : serformat_conv_spec_stmt.
Proof. exact serformat_conv_spec. Qed.
Print Assumptions C12_serformat_conv_spec.

Theorem C12_conv_error_spans_wellformed : conv_error_spans_wellformed_stmt.
Proof. exact conv_error_spans_wellformed. Qed.
Print Assumptions C12_conv_error_spans_wellformed.

Theorem C12_yacckind_span_counts_occur : yacckind_span_counts_occur_stmt.
Proof. exact yacckind_span_counts_occur. Qed.
Print Assumptions C12_yacckind_span_counts_occur.

Theorem C12_span_labels_total : span_labels_total_stmt.
Proof. exact span_labels_total. Qed.
Print Assumptions C12_span_labels_total.

Theorem C12_span_labels_orig_panics_iff : span_labels_orig_panics_iff_stmt.
Proof. exact span_labels_orig_panics_iff. Qed.
Print Assumptions C12_span_labels_orig_panics_iff.

Theorem C12_render_invalid_entry_refuted : render_invalid_entry_refuted_stmt.
Proof. exact render_invalid_entry_refuted. Qed.
Print Assumptions C12_render_invalid_entry_refuted.

(* white space after the '(' of a constructor value of the section (/repo fdd053a; the flag
   fixed_ctor_ws of the mirror): the pinned code rejects `Original( NoAction)`, the repaired
   code gives the value of `Original(NoAction)` for EVERY run of white space there *)
Theorem C12_header_ctor_ws_refuted : header_ctor_ws_refuted_stmt.
Proof. exact header_ctor_ws_refuted. Qed.
Print Assumptions C12_header_ctor_ws_refuted.

Theorem C12_header_layout_insensitive_ctor : header_layout_insensitive_ctor_stmt.
Proof. exact header_layout_insensitive_ctor. Qed.
Print Assumptions C12_header_layout_insensitive_ctor.

Theorem C12_header_layout_sensitive_ctor_pinned : header_layout_sensitive_ctor_pinned_stmt.
Proof. exact header_layout_sensitive_ctor_pinned. Qed.
Print Assumptions C12_header_layout_sensitive_ctor_pinned.

(* the rows printed for each span (C19's mirror of format_spanned, which since
   87315cb is the path of BOTH span kinds): for any number of spans that are on
   character boundaries, start <= end, in text order, it does not panic *)
Theorem C12_format_spanned_any_number_of_spans : C19.DiagSpec.format_spanned_spec_stmt.
Proof. exact C19.DiagProofs.format_spanned_spec. Qed.
Print Assumptions C12_format_spanned_any_number_of_spans.

(* MarkMap (cfgrammar/src/lib/markmap.rs): the structure the header of a .y/.l file and the builders' settings meet in *)
From GV Require Import C12.MarkMapModel C12.MarkMapSpec C12.MarkMapProofs.
Theorem C12_bsearch_spec : bsearch_spec_stmt.
Proof. exact bsearch_spec. Qed.
Print Assumptions C12_bsearch_spec.

Theorem C12_markmap_insert_spec : markmap_insert_spec_stmt.
Proof. exact markmap_insert_spec. Qed.
Print Assumptions C12_markmap_insert_spec.

Theorem C12_markmap_mark_spec : markmap_mark_spec_stmt.
Proof. exact markmap_mark_spec. Qed.
Print Assumptions C12_markmap_mark_spec.

Theorem C12_markmap_get_spec : markmap_get_spec_stmt.
Proof. exact markmap_get_spec. Qed.
Print Assumptions C12_markmap_get_spec.

Theorem C12_markmap_remove_spec : markmap_remove_spec_stmt.
Proof. exact markmap_remove_spec. Qed.
Print Assumptions C12_markmap_remove_spec.

Theorem C12_markmap_merge_spec : markmap_merge_spec_stmt.
Proof. exact markmap_merge_spec. Qed.
Print Assumptions C12_markmap_merge_spec.

Theorem C12_merge_point_table : merge_point_table_stmt.
Proof. exact merge_point_table. Qed.
Print Assumptions C12_merge_point_table.

Theorem C12_merge_conflict_iff : merge_conflict_iff_stmt.
Proof. exact merge_conflict_iff. Qed.
Print Assumptions C12_merge_conflict_iff.

Theorem C12_merge_not_atomic : merge_not_atomic_stmt.
Proof. exact merge_not_atomic. Qed.
Print Assumptions C12_merge_not_atomic.

Theorem C12_merge_theirs_erases_value : merge_theirs_erases_value_stmt.
Proof. exact merge_theirs_erases_value. Qed.
Print Assumptions C12_merge_theirs_erases_value.

Theorem C12_markmap_unused_missing_spec : markmap_unused_missing_spec_stmt.
Proof. exact markmap_unused_missing_spec. Qed.
Print Assumptions C12_markmap_unused_missing_spec.

Theorem C12_markmap_iter_is_prefix : markmap_iter_is_prefix_stmt.
Proof. exact markmap_iter_is_prefix. Qed.
Print Assumptions C12_markmap_iter_is_prefix.

Theorem C12_markmap_iter_complete_refuted : markmap_iter_complete_refuted_stmt.
Proof. exact markmap_iter_complete_refuted. Qed.
Print Assumptions C12_markmap_iter_complete_refuted.

Theorem C12_markmap_sorted_inv : markmap_sorted_inv_stmt.
Proof. exact markmap_sorted_inv. Qed.
Print Assumptions C12_markmap_sorted_inv.

Theorem C12_markmap_reachable_sorted : markmap_reachable_sorted_stmt.
Proof. exact markmap_reachable_sorted. Qed.
Print Assumptions C12_markmap_reachable_sorted.

Theorem C12_markmap_never_panics : markmap_never_panics_stmt.
Proof. exact markmap_never_panics. Qed.
Print Assumptions C12_markmap_never_panics.
