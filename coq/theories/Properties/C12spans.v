(* C12 — well-formed spans of the yacc and lex specification parsers (to be
   merged into Properties/C12.v): every span carried by an error, a warning or
   the AST satisfies start <= end <= |text| on character boundaries. *)
From GV Require Import Common.Outcome.
From GV Require C10.YpSpansSpec C10.YpSpans C11.ErrSpansSpec C11.ErrSpans.

Theorem C12_yacc_error_spans_wellformed : C10.YpSpansSpec.yacc_error_spans_wellformed_stmt.
Proof. exact C10.YpSpans.yacc_error_spans_wellformed. Qed.
Print Assumptions C12_yacc_error_spans_wellformed.

Theorem C12_yacc_action_span_boundary_fixed : C10.YpSpansSpec.yacc_action_span_boundary_fixed_stmt.
Proof. exact C10.YpSpans.yacc_action_span_boundary_fixed. Qed.
Print Assumptions C12_yacc_action_span_boundary_fixed.

Theorem C12_yacc_action_span_boundary_refuted : C10.YpSpansSpec.yacc_action_span_boundary_refuted_stmt.
Proof. exact C10.YpSpans.yacc_action_span_boundary_refuted. Qed.
Print Assumptions C12_yacc_action_span_boundary_refuted.

Theorem C12_yacc_spans_example : C10.YpSpansSpec.yacc_spans_example_stmt.
Proof. exact C10.YpSpans.yacc_spans_example. Qed.
Print Assumptions C12_yacc_spans_example.

Theorem C12_lex_error_spans_wellformed : C11.ErrSpansSpec.lex_error_spans_wellformed_stmt.
Proof. exact C11.ErrSpans.lex_error_spans_wellformed. Qed.
Print Assumptions C12_lex_error_spans_wellformed.

Theorem C12_lex_error_spans_refuted : C11.ErrSpansSpec.lex_error_spans_refuted_stmt.
Proof. exact C11.ErrSpans.lex_error_spans_refuted. Qed.
Print Assumptions C12_lex_error_spans_refuted.

Theorem C12_lex_error_spans_target_refuted : C11.ErrSpansSpec.lex_error_spans_target_refuted_stmt.
Proof. exact C11.ErrSpans.lex_error_spans_target_refuted. Qed.
Print Assumptions C12_lex_error_spans_target_refuted.

Theorem C12_lex_error_spans_example : C11.ErrSpansSpec.lex_error_spans_example_stmt.
Proof. exact C11.ErrSpans.lex_error_spans_example. Qed.
Print Assumptions C12_lex_error_spans_example.
