From GV Require Import Common.Outcome C19.Model C19.Spec C19.Proofs.
From GV Require Import C19.Diag C19.DiagSpec C19.DiagProofs.
From GV Require Import C19.FedModel C19.FedSpec C19.FedProofs.

Theorem C19_feed_chunking : feed_chunking_stmt.
Proof. exact feed_chunking. Qed.
Print Assumptions C19_feed_chunking.

Theorem C19_line_num_spec : line_num_spec_stmt.
Proof. exact line_num_spec. Qed.
Print Assumptions C19_line_num_spec.

Theorem C19_line_num_out_of_range : line_num_out_of_range_stmt.
Proof. exact line_num_out_of_range. Qed.
Print Assumptions C19_line_num_out_of_range.

Theorem C19_line_col_spec : line_col_spec_stmt.
Proof. exact line_col_spec. Qed.
Print Assumptions C19_line_col_spec.

Theorem C19_span_lines_spec : span_lines_spec_stmt.
Proof. exact span_lines_spec. Qed.
Print Assumptions C19_span_lines_spec.

Theorem C19_cache_of_total : cache_of_total_stmt.
Proof. exact cache_of_total. Qed.
Print Assumptions C19_cache_of_total.

Theorem C19_span_lines_orig_refuted : span_lines_orig_refuted_stmt.
Proof. exact span_lines_orig_refuted. Qed.
Print Assumptions C19_span_lines_orig_refuted.

Theorem C19_line_byte_spec : line_byte_spec_stmt.
Proof. exact line_byte_spec. Qed.
Print Assumptions C19_line_byte_spec.

Theorem C19_line_byte_out_of_range : line_byte_out_of_range_stmt.
Proof. exact line_byte_out_of_range. Qed.
Print Assumptions C19_line_byte_out_of_range.

Theorem C19_underline_rows_spec : underline_rows_spec_stmt.
Proof. exact underline_rows_spec. Qed.
Print Assumptions C19_underline_rows_spec.

Theorem C19_underline_nonempty : underline_nonempty_stmt.
Proof. exact underline_nonempty. Qed.
Print Assumptions C19_underline_nonempty.

Theorem C19_underline_long_prefix : underline_long_prefix_stmt.
Proof. exact underline_long_prefix. Qed.
Print Assumptions C19_underline_long_prefix.

Theorem C19_underline_orig_crlf_panic_refuted : underline_orig_crlf_panic_refuted_stmt.
Proof. exact underline_orig_crlf_panic_refuted. Qed.
Print Assumptions C19_underline_orig_crlf_panic_refuted.

Theorem C19_underline_orig_crlf_line_refuted : underline_orig_crlf_line_refuted_stmt.
Proof. exact underline_orig_crlf_line_refuted. Qed.
Print Assumptions C19_underline_orig_crlf_line_refuted.

Theorem C19_underline_orig_empty_refuted : underline_orig_empty_refuted_stmt.
Proof. exact underline_orig_empty_refuted. Qed.
Print Assumptions C19_underline_orig_empty_refuted.

Theorem C19_underline_orig_cr_text_refuted : underline_orig_cr_text_refuted_stmt.
Proof. exact underline_orig_cr_text_refuted. Qed.
Print Assumptions C19_underline_orig_cr_text_refuted.

Theorem C19_file_location_spec : file_location_spec_stmt.
Proof. exact file_location_spec. Qed.
Print Assumptions C19_file_location_spec.

Theorem C19_file_location_out_of_range : file_location_out_of_range_stmt.
Proof. exact file_location_out_of_range. Qed.
Print Assumptions C19_file_location_out_of_range.

Theorem C19_format_spanned_spec : format_spanned_spec_stmt.
Proof. exact format_spanned_spec. Qed.
Print Assumptions C19_format_spanned_spec.

Theorem C19_format_spanned_unsorted_panics : format_spanned_unsorted_panics_stmt.
Proof. exact format_spanned_unsorted_panics. Qed.
Print Assumptions C19_format_spanned_unsorted_panics.

Theorem C19_spans_on_line_spec : spans_on_line_spec_stmt.
Proof. exact spans_on_line_spec. Qed.
Print Assumptions C19_spans_on_line_spec.

Theorem C19_rows_spec_determinate : rows_spec_determinate_stmt.
Proof. exact rows_spec_determinate. Qed.
Print Assumptions C19_rows_spec_determinate.

Theorem C19_line_col_requires_fed_cache : line_col_requires_fed_cache_stmt.
Proof. exact line_col_requires_fed_cache. Qed.
Print Assumptions C19_line_col_requires_fed_cache.

Theorem C19_line_col_total_on_fed_cache : line_col_total_on_fed_cache_stmt.
Proof. exact line_col_total_on_fed_cache. Qed.
Print Assumptions C19_line_col_total_on_fed_cache.

Theorem C19_lexer_line_col_unfed_panics : lexer_line_col_unfed_panics_stmt.
Proof. exact lexer_line_col_unfed_panics. Qed.
Print Assumptions C19_lexer_line_col_unfed_panics.

Theorem C19_lexer_line_col_total_on_fed_cache : lexer_line_col_total_on_fed_cache_stmt.
Proof. exact lexer_line_col_total_on_fed_cache. Qed.
Print Assumptions C19_lexer_line_col_total_on_fed_cache.

Theorem C19_lexer_line_col_empty_cache_iff : lexer_line_col_empty_cache_iff_stmt.
Proof. exact lexer_line_col_empty_cache_iff. Qed.
Print Assumptions C19_lexer_line_col_empty_cache_iff.
