From GV Require Import Common.Outcome C19.Model C19.Spec C19.Proofs.

Theorem C19_feed_chunking : feed_chunking_stmt.
Proof. exact feed_chunking. Qed.
Print Assumptions C19_feed_chunking.

Theorem C19_line_num_spec : line_num_spec_stmt.
Proof. exact line_num_spec. Qed.
Print Assumptions C19_line_num_spec.

Theorem C19_line_num_out_of_range : line_num_out_of_range_stmt.
Proof. exact line_num_out_of_range. Qed.
Print Assumptions C19_line_num_out_of_range.

Theorem C19_line_col_spec : line_col_spec_stmt.
Proof. exact line_col_spec. Qed.
Print Assumptions C19_line_col_spec.

Theorem C19_span_lines_spec : span_lines_spec_stmt.
Proof. exact span_lines_spec. Qed.
Print Assumptions C19_span_lines_spec.

Theorem C19_cache_of_total : cache_of_total_stmt.
Proof. exact cache_of_total. Qed.
Print Assumptions C19_cache_of_total.

Theorem C19_span_lines_orig_refuted : span_lines_orig_refuted_stmt.
Proof. exact span_lines_orig_refuted. Qed.
Print Assumptions C19_span_lines_orig_refuted.

Theorem C19_line_byte_spec : line_byte_spec_stmt.
Proof. exact line_byte_spec. Qed.
Print Assumptions C19_line_byte_spec.

Theorem C19_line_byte_out_of_range : line_byte_out_of_range_stmt.
Proof. exact line_byte_out_of_range. Qed.
Print Assumptions C19_line_byte_out_of_range.
