From GV Require Import Common.Outcome C06.Model C06.Spec C06.Proofs C06.RefProofs C06.Mirror C06.Refuted.

Theorem C06_reference_complete : reference_complete_stmt.
Proof. exact reference_complete. Qed.
Print Assumptions C06_reference_complete.

Theorem C06_reference_none : reference_none_stmt.
Proof. exact reference_none. Qed.
Print Assumptions C06_reference_none.

Theorem C06_enum_exact : enum_exact_stmt.
Proof. exact enum_exact. Qed.
Print Assumptions C06_enum_exact.

Theorem C06_first_success_length : first_success_length_stmt.
Proof. exact first_success_length. Qed.
Print Assumptions C06_first_success_length.

Theorem C06_cands_exact : cands_exact_stmt.
Proof. exact cands_exact. Qed.
Print Assumptions C06_cands_exact.

Theorem C06_first_succ_global : first_succ_global_stmt.
Proof. exact first_succ_global. Qed.
Print Assumptions C06_first_succ_global.

Theorem C06_srun_is_apply_seq : srun_is_apply_seq_stmt.
Proof. exact srun_is_apply_seq. Qed.
Print Assumptions C06_srun_is_apply_seq.

Theorem C06_success_has_first_prefix : success_has_first_prefix_stmt.
Proof. exact success_has_first_prefix. Qed.
Print Assumptions C06_success_has_first_prefix.

Theorem C06_del_ins_commute : del_ins_commute_cost_stmt.
Proof. exact del_ins_commute_cost. Qed.
Print Assumptions C06_del_ins_commute.

Theorem C06_del_ins_both : del_ins_both_stmt.
Proof. exact del_ins_both. Qed.
Print Assumptions C06_del_ins_both.

Theorem C06_simplify_postconditions : simplify_postconditions_stmt.
Proof. exact simplify_postconditions. Qed.
Print Assumptions C06_simplify_postconditions.

Theorem C06_sorted_means : sorted_means_stmt.
Proof. exact sorted_means. Qed.
Print Assumptions C06_sorted_means.

Theorem C06_reference_form : reference_form_stmt.
Proof. exact reference_form. Qed.
Print Assumptions C06_reference_form.

Theorem C06_search_complete_refuted : search_complete_refuted_stmt.
Proof. exact search_complete_refuted. Qed.
Print Assumptions C06_search_complete_refuted.
