From GV Require Import Common.Outcome C06.Model C06.Spec C06.Proofs C06.RefProofs C06.Mirror C06.Refuted.

From GV Require Import Common.Outcome C06.Model C06.Spec C06.Mirror C06.SearchSpec C06.SearchProofs C06.SearchExamples.
From GV Require Import Base.Grammar LR.Automaton LR.Validator LR.Spec Repair.Semantics Repair.Spec Repair.Search Repair.Confluent Repair.ConfluentSpec Repair.ConfluentValidated.
Theorem C06_reference_complete : reference_complete_stmt.
Proof. exact reference_complete. Qed.
Print Assumptions C06_reference_complete.

Theorem C06_reference_none : reference_none_stmt.
Proof. exact reference_none. Qed.
Print Assumptions C06_reference_none.

Theorem C06_enum_exact : enum_exact_stmt.
Proof. exact enum_exact. Qed.
Print Assumptions C06_enum_exact.

Theorem C06_first_success_length : first_success_length_stmt.
Proof. exact first_success_length. Qed.
Print Assumptions C06_first_success_length.

Theorem C06_cands_exact : cands_exact_stmt.
Proof. exact cands_exact. Qed.
Print Assumptions C06_cands_exact.

Theorem C06_first_succ_global : first_succ_global_stmt.
Proof. exact first_succ_global. Qed.
Print Assumptions C06_first_succ_global.

Theorem C06_srun_is_apply_seq : srun_is_apply_seq_stmt.
Proof. exact srun_is_apply_seq. Qed.
Print Assumptions C06_srun_is_apply_seq.

Theorem C06_success_has_first_prefix : success_has_first_prefix_stmt.
Proof. exact success_has_first_prefix. Qed.
Print Assumptions C06_success_has_first_prefix.

Theorem C06_del_ins_commute : del_ins_commute_cost_stmt.
Proof. exact del_ins_commute_cost. Qed.
Print Assumptions C06_del_ins_commute.

Theorem C06_del_ins_both : del_ins_both_stmt.
Proof. exact del_ins_both. Qed.
Print Assumptions C06_del_ins_both.

Theorem C06_simplify_postconditions : simplify_postconditions_stmt.
Proof. exact simplify_postconditions. Qed.
Print Assumptions C06_simplify_postconditions.

Theorem C06_sorted_means : sorted_means_stmt.
Proof. exact sorted_means. Qed.
Print Assumptions C06_sorted_means.

Theorem C06_reference_form : reference_form_stmt.
Proof. exact reference_form. Qed.
Print Assumptions C06_reference_form.

Theorem C06_search_complete_refuted : search_complete_refuted_stmt.
Proof. exact search_complete_refuted. Qed.
Print Assumptions C06_search_complete_refuted.

(* soundness invariants of the executable mirror of the bucketed search (dijkstra + CPCTPlus) *)

Theorem C06_exec_step : exec_step_stmt.
Proof. exact exec_step. Qed.
Print Assumptions C06_exec_step.

Theorem C06_exec_progress : exec_progress_stmt.
Proof. exact exec_progress. Qed.
Print Assumptions C06_exec_progress.

Theorem C06_exec_total : exec_total_stmt.
Proof. exact exec_total. Qed.
Print Assumptions C06_exec_total.

Theorem C06_mirror_runs : mirror_runs_stmt.
Proof. exact mirror_runs. Qed.
Print Assumptions C06_mirror_runs.

Theorem C06_node_invariant : node_invariant_stmt.
Proof. exact node_invariant. Qed.
Print Assumptions C06_node_invariant.

Theorem C06_neighbours_invariant : neighbours_invariant_stmt.
Proof. exact neighbours_invariant. Qed.
Print Assumptions C06_neighbours_invariant.

Theorem C06_merge_preserves_invariant : merge_preserves_invariant_stmt.
Proof. exact merge_preserves_invariant. Qed.
Print Assumptions C06_merge_preserves_invariant.

Theorem C06_returned_nodes_invariant : returned_nodes_invariant_stmt.
Proof. exact returned_nodes_invariant. Qed.
Print Assumptions C06_returned_nodes_invariant.

Theorem C06_nf_means : nf_means_stmt.
Proof. exact nf_means. Qed.
Print Assumptions C06_nf_means.

Theorem C06_unfold_in_paths : unfold_in_paths_stmt.
Proof. exact unfold_in_paths. Qed.
Print Assumptions C06_unfold_in_paths.

Theorem C06_buckets_in_cost_order : buckets_in_cost_order_stmt.
Proof. exact buckets_in_cost_order. Qed.
Print Assumptions C06_buckets_in_cost_order.

Theorem C06_first_success_is_minimal_among_explored : first_success_is_minimal_among_explored_stmt.
Proof. exact first_success_is_minimal_among_explored. Qed.
Print Assumptions C06_first_success_is_minimal_among_explored.

Theorem C06_returned_same_cost : returned_same_cost_stmt.
Proof. exact returned_same_cost. Qed.
Print Assumptions C06_returned_same_cost.

Theorem C06_reported_are_successes : reported_are_successes_stmt.
Proof. exact reported_are_successes. Qed.
Print Assumptions C06_reported_are_successes.

Theorem C06_reported_valid : reported_valid_stmt.
Proof. exact reported_valid. Qed.
Print Assumptions C06_reported_valid.

Theorem C06_reported_are_reference_successes : reported_are_reference_successes_stmt.
Proof. exact reported_are_reference_successes. Qed.
Print Assumptions C06_reported_are_reference_successes.

Theorem C06_reported_cost_ge_reference : reported_cost_ge_reference_stmt.
Proof. exact reported_cost_ge_reference. Qed.
Print Assumptions C06_reported_cost_ge_reference.

Theorem C06_mirror_output_form : mirror_output_form_stmt.
Proof. exact mirror_output_form. Qed.
Print Assumptions C06_mirror_output_form.

Theorem C06_merge_arm_unreachable : merge_arm_unreachable_stmt.
Proof. exact merge_arm_unreachable. Qed.
Print Assumptions C06_merge_arm_unreachable.

(* on validated conflict-free tables every sequence reported by the search mirror is a valid repair of cost >= the reference minimum *)
Theorem C06_validated_reported_valid : validated_reported_valid_stmt.
Proof. exact validated_reported_valid. Qed.
Print Assumptions C06_validated_reported_valid.

Theorem C06_validated_reported_valid_within_fuel : validated_reported_valid_within_fuel_stmt.
Proof. exact validated_reported_valid_within_fuel. Qed.
Print Assumptions C06_validated_reported_valid_within_fuel.

Theorem C06_validated_reported_are_reference_successes : validated_reported_are_reference_successes_stmt.
Proof. exact validated_reported_are_reference_successes. Qed.
Print Assumptions C06_validated_reported_are_reference_successes.

Theorem C06_validated_reported_cost_ge_reference : validated_reported_cost_ge_reference_stmt.
Proof. exact validated_reported_cost_ge_reference. Qed.
Print Assumptions C06_validated_reported_cost_ge_reference.


(* completeness / minimality of the search mirror (the Dijkstra invariant with node merging) *)
From GV Require Import C06.CompleteSpec C06.CompleteProofs C06.CompleteRank C06.CompleteValidated C06.CompleteValidatedRank C06.CompleteExamples.

Theorem C06_dijkstra_complete : dijkstra_complete_stmt.
Proof. exact dijkstra_complete. Qed.
Print Assumptions C06_dijkstra_complete.

Theorem C06_reported_cost_minimal : reported_cost_minimal_stmt.
Proof. exact reported_cost_minimal. Qed.
Print Assumptions C06_reported_cost_minimal.

Theorem C06_reported_cost_eq_reference : reported_cost_eq_reference_stmt.
Proof. exact reported_cost_eq_reference. Qed.
Print Assumptions C06_reported_cost_eq_reference.

Theorem C06_candidates_complete : candidates_complete_stmt.
Proof. exact candidates_complete. Qed.
Print Assumptions C06_candidates_complete.

Theorem C06_search_complete_bounded : search_complete_bounded_stmt.
Proof. exact search_complete_bounded. Qed.
Print Assumptions C06_search_complete_bounded.

Theorem C06_search_reports_exactly : search_reports_exactly_stmt.
Proof. exact search_reports_exactly. Qed.
Print Assumptions C06_search_reports_exactly.

(* the same at the first error of an input (the shape of search_complete_stmt), and on validated tables *)
Theorem C06_error_not_success : error_not_success_stmt.
Proof. exact error_not_success. Qed.
Print Assumptions C06_error_not_success.

Theorem C06_search_complete_at_error : search_complete_at_error_stmt.
Proof. exact search_complete_at_error. Qed.
Print Assumptions C06_search_complete_at_error.

Theorem C06_validated_reported_cost_eq_reference : validated_reported_cost_eq_reference_stmt.
Proof. exact validated_reported_cost_eq_reference. Qed.
Print Assumptions C06_validated_reported_cost_eq_reference.

Theorem C06_validated_candidates_complete : validated_candidates_complete_stmt.
Proof. exact validated_candidates_complete. Qed.
Print Assumptions C06_validated_candidates_complete.

Theorem C06_validated_reported_are_min_cost : validated_reported_are_min_cost_stmt.
Proof. exact validated_reported_are_min_cost. Qed.
Print Assumptions C06_validated_reported_are_min_cost.

(* the set, on validated tables (reference at every sufficiently large reduction fuel) *)
Theorem C06_validated_search_complete : validated_search_complete_stmt.
Proof. exact validated_search_complete. Qed.
Print Assumptions C06_validated_search_complete.

Theorem C06_validated_search_complete_at_error : validated_search_complete_at_error_stmt.
Proof. exact validated_search_complete_at_error. Qed.
Print Assumptions C06_validated_search_complete_at_error.

(* search_complete_stmt true as stated in C06/Refuted.v (no bound on the minimum cost) is false *)
Theorem C06_search_complete_needs_cost_bound : search_complete_needs_cost_bound_stmt.
Proof. exact search_complete_needs_cost_bound. Qed.
Print Assumptions C06_search_complete_needs_cost_bound.

(* the look-ahead cap of the ranking (rank_cnds; /repo 00915cc): the repaired ranking keeps exactly the candidates whose capped distance is maximal; the pinned one is refuted *)
From GV Require Import C06.RankCapSpec C06.RankCapProofs.

Theorem C06_parse_below_within : parse_below_within_stmt.
Proof. exact parse_below_within. Qed.
Print Assumptions C06_parse_below_within.

Theorem C06_cap_dist_is_capped_distance : cap_dist_is_capped_distance_stmt.
Proof. exact cap_dist_is_capped_distance. Qed.
Print Assumptions C06_cap_dist_is_capped_distance.

Theorem C06_far_is_capped_distance : far_is_capped_distance_stmt.
Proof. exact far_is_capped_distance. Qed.
Print Assumptions C06_far_is_capped_distance.

Theorem C06_rank_fixed_spec : rank_fixed_spec_stmt.
Proof. exact rank_fixed_spec. Qed.
Print Assumptions C06_rank_fixed_spec.

Theorem C06_search_mirror_keeps : search_mirror_keeps_stmt.
Proof. exact search_mirror_keeps. Qed.
Print Assumptions C06_search_mirror_keeps.

Theorem C06_rank_cap_refuted_orig : rank_cap_refuted_orig_stmt.
Proof. exact rank_cap_refuted_orig. Qed.
Print Assumptions C06_rank_cap_refuted_orig.

Theorem C06_reference_orig_uncapped : reference_orig_uncapped_stmt.
Proof. exact reference_orig_uncapped. Qed.
Print Assumptions C06_reference_orig_uncapped.
