From GV Require Import Common.Outcome C10.GrmModel C10.GrmSpec C10.GrmProofs.
From GV Require Import C10.YpExports.

From GV Require Import C10.YpRoundExports.
From GV Require Import C10.YpPrecUsedSpec C10.YpPrecUsed.
Theorem C10_grm_build_faithful : build_faithful_stmt.
Proof. exact build_faithful. Qed.
Print Assumptions C10_grm_build_faithful.

Theorem C10_grm_build_total : build_total_stmt.
Proof. exact build_total. Qed.
Print Assumptions C10_grm_build_total.

Theorem C10_grm_rule_names_unique : rule_names_unique_stmt.
Proof. exact rule_names_unique. Qed.
Print Assumptions C10_grm_rule_names_unique.

Theorem C10_grm_wf_astb_sound : wf_astb_sound_stmt.
Proof. exact wf_astb_sound. Qed.
Print Assumptions C10_grm_wf_astb_sound.

Theorem C10_grm_build_dense_in_range : build_dense_in_range_stmt.
Proof. exact build_dense_in_range. Qed.
Print Assumptions C10_grm_build_dense_in_range.

Theorem C10_grm_build_dense_in_range_refuted : build_dense_in_range_refuted_stmt.
Proof. exact build_dense_in_range_refuted. Qed.
Print Assumptions C10_grm_build_dense_in_range_refuted.

Theorem C10_grm_build_eco_actions_refuted : build_eco_actions_refuted_stmt.
Proof. exact build_eco_actions_refuted. Qed.
Print Assumptions C10_grm_build_eco_actions_refuted.


Theorem C10b_ws_skips_layout_fixed : ws_skips_layout_fixed_stmt.
Proof. exact ws_skips_layout_fixed. Qed.
Print Assumptions C10b_ws_skips_layout_fixed.

Theorem C10b_ws_skips_line_layout : ws_skips_line_layout_stmt.
Proof. exact ws_skips_line_layout. Qed.
Print Assumptions C10b_ws_skips_line_layout.

Theorem C10b_ws_skips_layout_refuted : ws_skips_layout_refuted_stmt.
Proof. exact ws_skips_layout_refuted. Qed.
Print Assumptions C10b_ws_skips_layout_refuted.

Theorem C10b_parse_name_roundtrip : parse_name_roundtrip_stmt.
Proof. exact parse_name_roundtrip. Qed.
Print Assumptions C10b_parse_name_roundtrip.

Theorem C10b_parse_token_bare_roundtrip : parse_token_bare_roundtrip_stmt.
Proof. exact parse_token_bare_roundtrip. Qed.
Print Assumptions C10b_parse_token_bare_roundtrip.

Theorem C10b_parse_token_quoted_roundtrip : parse_token_quoted_roundtrip_stmt.
Proof. exact parse_token_quoted_roundtrip. Qed.
Print Assumptions C10b_parse_token_quoted_roundtrip.

Theorem C10b_parse_string_roundtrip : parse_string_roundtrip_stmt.
Proof. exact parse_string_roundtrip. Qed.
Print Assumptions C10b_parse_string_roundtrip.

Theorem C10b_parse_int_roundtrip : parse_int_roundtrip_stmt.
Proof. exact parse_int_roundtrip. Qed.
Print Assumptions C10b_parse_int_roundtrip.

Theorem C10b_parse_usize_value : parse_usize_value_stmt.
Proof. exact parse_usize_value. Qed.
Print Assumptions C10b_parse_usize_value.

Theorem C10b_yacc_parse_total : yacc_parse_total_stmt.
Proof. exact yacc_parse_total. Qed.
Print Assumptions C10b_yacc_parse_total.

Theorem C10b_action_span_fixed : action_span_fixed_stmt.
Proof. exact action_span_fixed. Qed.
Print Assumptions C10b_action_span_fixed.

Theorem C10b_action_span_refuted : action_span_refuted_stmt.
Proof. exact action_span_refuted. Qed.
Print Assumptions C10b_action_span_refuted.

(* the whole-file round-trip law: parse (print layout grammar) = grammar, for a formal printer tied to the code;
   all three dialects (Original, Grmtools, Eco), every declaration kind, programs section *)

Theorem C10round_yacc_roundtrip : yacc_roundtrip_stmt.
Proof. exact yacc_roundtrip. Qed.
Print Assumptions C10round_yacc_roundtrip.

Theorem C10round_yacc_roundtrip_original : yacc_roundtrip_original_stmt.
Proof. exact yacc_roundtrip_original. Qed.
Print Assumptions C10round_yacc_roundtrip_original.

Theorem C10round_yacc_roundtrip_grmtools : yacc_roundtrip_grmtools_stmt.
Proof. exact yacc_roundtrip_grmtools. Qed.
Print Assumptions C10round_yacc_roundtrip_grmtools.

Theorem C10round_yacc_roundtrip_eco : yacc_roundtrip_eco_stmt.
Proof. exact yacc_roundtrip_eco. Qed.
Print Assumptions C10round_yacc_roundtrip_eco.

Theorem C10round_yacc_parse_roundtrip : yacc_parse_roundtrip_stmt.
Proof. exact yacc_parse_roundtrip. Qed.
Print Assumptions C10round_yacc_parse_roundtrip.

Theorem C10round_validation_clean : validation_clean_stmt.
Proof. exact validation_clean. Qed.
Print Assumptions C10round_validation_clean.

Theorem C10round_ast_of_faithful : ast_of_faithful_stmt.
Proof. exact ast_of_faithful. Qed.
Print Assumptions C10round_ast_of_faithful.

Theorem C10round_ast_of_block_types : ast_of_block_types_stmt.
Proof. exact ast_of_block_types. Qed.
Print Assumptions C10round_ast_of_block_types.

Theorem C10round_ast_of_spans_select : ast_of_spans_select_stmt.
Proof. exact ast_of_spans_select. Qed.
Print Assumptions C10round_ast_of_spans_select.

Theorem C10round_declarations_roundtrip : declarations_roundtrip_stmt.
Proof. exact declarations_roundtrip. Qed.
Print Assumptions C10round_declarations_roundtrip.

Theorem C10round_decl_step : decl_step_stmt.
Proof. exact decl_step. Qed.
Print Assumptions C10round_decl_step.

Theorem C10round_decls_pre_wf : decls_pre_wf_stmt.
Proof. exact decls_pre_wf. Qed.
Print Assumptions C10round_decls_pre_wf.

Theorem C10round_decls_tok_inv : decls_tok_inv_stmt.
Proof. exact decls_tok_inv. Qed.
Print Assumptions C10round_decls_tok_inv.

Theorem C10round_rules_roundtrip : rules_roundtrip_stmt.
Proof. exact rules_roundtrip. Qed.
Print Assumptions C10round_rules_roundtrip.

Theorem C10round_rule_roundtrip : rule_roundtrip_stmt.
Proof. exact rule_roundtrip. Qed.
Print Assumptions C10round_rule_roundtrip.

Theorem C10round_parse_action_roundtrip : parse_action_roundtrip_stmt.
Proof. exact parse_action_roundtrip. Qed.
Print Assumptions C10round_parse_action_roundtrip.

Theorem C10round_action_span_roundtrip : action_span_roundtrip_stmt.
Proof. exact action_span_roundtrip. Qed.
Print Assumptions C10round_action_span_roundtrip.

Theorem C10round_roundtrip_hyps_satisfiable : roundtrip_hyps_satisfiable_stmt.
Proof. exact roundtrip_hyps_satisfiable. Qed.
Print Assumptions C10round_roundtrip_hyps_satisfiable.

(* what the code drops silently (outside the hypotheses of the round trip): findings *)
Theorem C10round_rule_type_conflict_refuted : rule_type_conflict_refuted_stmt.
Proof. exact rule_type_conflict_refuted. Qed.
Print Assumptions C10round_rule_type_conflict_refuted.

Theorem C10round_parse_param_twice_refuted : parse_param_twice_refuted_stmt.
Proof. exact parse_param_twice_refuted. Qed.
Print Assumptions C10round_parse_param_twice_refuted.

Theorem C10round_value_comment_refuted : value_comment_refuted_stmt.
Proof. exact value_comment_refuted. Qed.
Print Assumptions C10round_value_comment_refuted.

(* production spans (/repo 69c4b9b): with the repaired end every production's span selects the text of
   its items without the layout that follows, with or without an action; the pinned variant is refuted *)
Theorem C10round_ast_of_prod_spans : ast_of_prod_spans_stmt.
Proof. exact ast_of_prod_spans. Qed.
Print Assumptions C10round_ast_of_prod_spans.

Theorem C10round_prod_span_ends_after_last_symbol : prod_span_ends_after_last_symbol_stmt.
Proof. exact prod_span_ends_after_last_symbol. Qed.
Print Assumptions C10round_prod_span_ends_after_last_symbol.

Theorem C10round_prod_span_action_layout_refuted : prod_span_action_layout_refuted_stmt.
Proof. exact prod_span_action_layout_refuted. Qed.
Print Assumptions C10round_prod_span_action_layout_refuted.

(* known findings: the named condition of wf_action that excludes braces in literals/comments of action
   code, a pair violating only it, and layout after an action type *)
Theorem C10round_wf_layout_split : wf_layout_split_stmt.
Proof. exact wf_layout_split. Qed.
Print Assumptions C10round_wf_layout_split.

Theorem C10round_action_literal_brace_refuted : action_literal_brace_refuted_stmt.
Proof. exact action_literal_brace_refuted. Qed.
Print Assumptions C10round_action_literal_brace_refuted.

Theorem C10round_actiontype_layout_refuted : actiontype_layout_refuted_stmt.
Proof. exact actiontype_layout_refuted. Qed.
Print Assumptions C10round_actiontype_layout_refuted.

(* unused_symbols and %prec (/repo 4ff022d; C03's build clause depends on it): with the repaired walk a
   token named by %prec of a reachable production is never reported unused; the pinned walk is refuted on
   the textbook unary-minus grammar; a %prec token of an unreachable production is still reported *)
Theorem C10_prec_token_is_used : prec_token_is_used_stmt.
Proof. exact prec_token_is_used. Qed.
Print Assumptions C10_prec_token_is_used.

Theorem C10_symbol_token_is_used : symbol_token_is_used_stmt.
Proof. exact symbol_token_is_used. Qed.
Print Assumptions C10_symbol_token_is_used.

Theorem C10_warnings_are_unused : warnings_are_unused_stmt.
Proof. exact warnings_are_unused. Qed.
Print Assumptions C10_warnings_are_unused.

Theorem C10_prec_only_token_unused_refuted : prec_only_token_unused_refuted_stmt.
Proof. exact prec_only_token_unused_refuted. Qed.
Print Assumptions C10_prec_only_token_unused_refuted.

Theorem C10_prec_token_unreachable_reported : prec_token_unreachable_reported_stmt.
Proof. exact prec_token_unreachable_reported. Qed.
Print Assumptions C10_prec_token_unreachable_reported.
