(* Termination of the table-driven LR loop (to be merged into C01 / C04 / C07):
   statements in LR/TermSpec.v, proofs in LR/Term{Graph,Trees,Stack,Proofs,Refute}.v *)
From GV Require Import LR.TermSpec LR.TermGraph LR.TermProofs.

Theorem LRterm_lr_terminates_b : lr_terminates_b_stmt.
Proof. exact lr_terminates_b. Qed.
Print Assumptions LRterm_lr_terminates_b.

Theorem LRterm_lr_terminates_b_exists : lr_terminates_b_exists_stmt.
Proof. exact lr_terminates_b_exists. Qed.
Print Assumptions LRterm_lr_terminates_b_exists.

Theorem LRterm_acyclic_b_sound : acyclic_b_sound_stmt.
Proof. exact acyclic_b_sound. Qed.
Print Assumptions LRterm_acyclic_b_sound.

Theorem LRterm_hlr_free_b_sound : hlr_free_b_sound_stmt.
Proof. exact hlr_free_b_sound. Qed.
Print Assumptions LRterm_hlr_free_b_sound.

Theorem LRterm_lr_terminates_validS_only_refuted : lr_terminates_validS_only_refuted_stmt.
Proof. exact lr_terminates_validS_only_refuted. Qed.
Print Assumptions LRterm_lr_terminates_validS_only_refuted.
