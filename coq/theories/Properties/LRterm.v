(* Termination of the table-driven LR loop (to be merged into C01 / C04 / C07):
   statements in LR/TermSpec.v, proofs in LR/Term*.v *)
From GV Require Import LR.TermSpec LR.TermGraph LR.TermProofs LR.TermComplete LR.TermValidated.

Theorem LRterm_lr_terminates_validated : lr_terminates_validated_stmt.
Proof. exact lr_terminates_validated. Qed.
Print Assumptions LRterm_lr_terminates_validated.

Theorem LRterm_lr_terminates : lr_terminates_stmt.
Proof. exact lr_terminates. Qed.
Print Assumptions LRterm_lr_terminates.

Theorem LRterm_lr_terminates_b : lr_terminates_b_stmt.
Proof. exact lr_terminates_b. Qed.
Print Assumptions LRterm_lr_terminates_b.

Theorem LRterm_lr_terminates_b_exists : lr_terminates_b_exists_stmt.
Proof. exact lr_terminates_b_exists. Qed.
Print Assumptions LRterm_lr_terminates_b_exists.

Theorem LRterm_acyclic_b_sound : acyclic_b_sound_stmt.
Proof. exact acyclic_b_sound. Qed.
Print Assumptions LRterm_acyclic_b_sound.

Theorem LRterm_acyclic_b_complete : acyclic_b_complete_stmt.
Proof. exact acyclic_b_complete. Qed.
Print Assumptions LRterm_acyclic_b_complete.

Theorem LRterm_hlr_free_b_sound : hlr_free_b_sound_stmt.
Proof. exact hlr_free_b_sound. Qed.
Print Assumptions LRterm_hlr_free_b_sound.

Theorem LRterm_hlr_free_b_complete : hlr_free_b_complete_stmt.
Proof. exact hlr_free_b_complete. Qed.
Print Assumptions LRterm_hlr_free_b_complete.

Theorem LRterm_lr_terminates_validS_only_refuted : lr_terminates_validS_only_refuted_stmt.
Proof. exact lr_terminates_validS_only_refuted. Qed.
Print Assumptions LRterm_lr_terminates_validS_only_refuted.
