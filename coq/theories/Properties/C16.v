From GV Require Import C16.Model C16.Spec C16.RowProofs C16.GraphProofs C16.Proofs.

Theorem C16_coherent_b_sound : coherent_b_sound_stmt.
Proof. exact coherent_b_sound. Qed.
Print Assumptions C16_coherent_b_sound.

Theorem C16_row_checks_reflect : row_checks_reflect_stmt.
Proof. exact row_checks_reflect. Qed.
Print Assumptions C16_row_checks_reflect.

Theorem C16_targets_reflect : targets_reflect_stmt.
Proof. exact targets_reflect. Qed.
Print Assumptions C16_targets_reflect.

Theorem C16_views_from_final_cells_coherent : views_from_final_cells_coherent_stmt.
Proof. exact views_from_final_cells_coherent. Qed.
Print Assumptions C16_views_from_final_cells_coherent.

Theorem C16_state_actions_mirror_characterised : state_actions_mirror_characterised_stmt.
Proof. exact state_actions_mirror_characterised. Qed.
Print Assumptions C16_state_actions_mirror_characterised.

Theorem C16_state_actions_mirror_refuted : state_actions_mirror_refuted_stmt.
Proof. exact state_actions_mirror_refuted. Qed.
Print Assumptions C16_state_actions_mirror_refuted.
