From GV Require Import C16.Model C16.Spec C16.RowProofs C16.GraphProofs C16.Proofs.

Theorem C16_coherent_b_sound : coherent_b_sound_stmt.
Proof. exact coherent_b_sound. Qed.
Print Assumptions C16_coherent_b_sound.

Theorem C16_row_checks_reflect : row_checks_reflect_stmt.
Proof. exact row_checks_reflect. Qed.
Print Assumptions C16_row_checks_reflect.

Theorem C16_targets_reflect : targets_reflect_stmt.
Proof. exact targets_reflect. Qed.
Print Assumptions C16_targets_reflect.

Theorem C16_views_from_final_cells_coherent : views_from_final_cells_coherent_stmt.
Proof. exact views_from_final_cells_coherent. Qed.
Print Assumptions C16_views_from_final_cells_coherent.

Theorem C16_state_actions_mirror_characterised : state_actions_mirror_characterised_stmt.
Proof. exact state_actions_mirror_characterised. Qed.
Print Assumptions C16_state_actions_mirror_characterised.

Theorem C16_state_actions_mirror_refuted : state_actions_mirror_refuted_stmt.
Proof. exact state_actions_mirror_refuted. Qed.
Print Assumptions C16_state_actions_mirror_refuted.

(* C16 for the graph and table the construction builds (theories/C01/Pipeline*.v): for every grammar and
   every oracle of hash orders the result is COHERENT — every state reachable from the start state, every
   closed state the LR(1) closure of its core state, shift/goto targets = the graph's edges, and the
   views derived from the final cells (state_actions with the repaired clearing of erased cells) agree
   with the cells *)
From GV Require Import C01.Pipeline C01.PipelineSpec C01.PipelineEdges C01.PipelineC16.

Theorem C16_construction_coherent : construction_coherent_stmt.
Proof. exact construction_coherent. Qed.
Print Assumptions C16_construction_coherent.

Theorem C16_pager_mirror_all_reachable : pager_mirror_all_reachable_stmt.
Proof. exact pager_mirror_all_reachable. Qed.
Print Assumptions C16_pager_mirror_all_reachable.

(* EXACTNESS of the boolean checker (theories/C16/Exact{Spec,Proofs}.v): under the well-formedness
   conditions of a dump (validator conjuncts vS1/vS5, edges only on the grammar's symbols, core
   lookaheads within the grammar's tokens, wf_grammar) [coherent_b] accepts EXACTLY the coherent
   dumps — the reachability iteration saturates within nstates rounds, the fuel of the reference
   LR(1) closure is enough — so a rejection is never a false alarm *)
From GV Require Import C16.ExactSpec C16.ExactProofs.

Theorem C16_reach_states_complete : reach_states_complete_stmt.
Proof. exact reach_states_complete. Qed.
Print Assumptions C16_reach_states_complete.

Theorem C16_all_reachable_b_complete : all_reachable_b_complete_stmt.
Proof. exact all_reachable_b_complete. Qed.
Print Assumptions C16_all_reachable_b_complete.

Theorem C16_all_reachable_b_reflects : all_reachable_b_reflects_stmt.
Proof. exact all_reachable_b_reflects. Qed.
Print Assumptions C16_all_reachable_b_reflects.

Theorem C16_lr1_closure_exact : lr1_closure_exact_stmt.
Proof. exact lr1_closure_exact. Qed.
Print Assumptions C16_lr1_closure_exact.

Theorem C16_closure_b_complete : closure_b_complete_stmt.
Proof. exact closure_b_complete. Qed.
Print Assumptions C16_closure_b_complete.

Theorem C16_closure_b_reflects : closure_b_reflects_stmt.
Proof. exact closure_b_reflects. Qed.
Print Assumptions C16_closure_b_reflects.

Theorem C16_coherent_b_complete : coherent_b_complete_stmt.
Proof. exact coherent_b_complete. Qed.
Print Assumptions C16_coherent_b_complete.

Theorem C16_coherent_b_exact : coherent_b_exact_stmt.
Proof. exact coherent_b_exact. Qed.
Print Assumptions C16_coherent_b_exact.

Theorem C16_coherent_b_exact_dump : coherent_b_exact_dump_stmt.
Proof. exact coherent_b_exact_dump. Qed.
Print Assumptions C16_coherent_b_exact_dump.

Theorem C16_dump_edges_in_syms_b_sound : dump_edges_in_syms_b_sound_stmt.
Proof. exact dump_edges_in_syms_b_sound. Qed.
Print Assumptions C16_dump_edges_in_syms_b_sound.

Theorem C16_core_la_in_toks_b_reflects : core_la_in_toks_b_reflects_stmt.
Proof. exact core_la_in_toks_b_reflects. Qed.
Print Assumptions C16_core_la_in_toks_b_reflects.
