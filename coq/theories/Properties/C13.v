From GV Require Import Common.Outcome C13.Model C13.Spec C13.Proofs.

Theorem C13_subst_mirror_meets_spec : subst_mirror_meets_spec_stmt.
Proof. exact subst_mirror_meets_spec. Qed.
Print Assumptions C13_subst_mirror_meets_spec.

Theorem C13_subst_ok : subst_ok_stmt.
Proof. exact subst_ok. Qed.
Print Assumptions C13_subst_ok.

Theorem C13_subst_err : subst_err_stmt.
Proof. exact subst_err. Qed.
Print Assumptions C13_subst_err.

Theorem C13_spec_total : spec_total_stmt.
Proof. exact spec_total. Qed.
Print Assumptions C13_spec_total.

Theorem C13_tokenises_unique : tokenises_unique_stmt.
Proof. exact tokenises_unique. Qed.
Print Assumptions C13_tokenises_unique.

Theorem C13_wrapper_args_spec : wrapper_args_spec_stmt.
Proof. exact wrapper_args_spec. Qed.
Print Assumptions C13_wrapper_args_spec.

Theorem C13_wrapper_panics_only_on_mismatch : wrapper_panics_only_on_mismatch_stmt.
Proof. exact wrapper_panics_only_on_mismatch. Qed.
Print Assumptions C13_wrapper_panics_only_on_mismatch.

Theorem C13_dollar_k_denotes_kth : dollar_k_denotes_kth_stmt.
Proof. exact dollar_k_denotes_kth. Qed.
Print Assumptions C13_dollar_k_denotes_kth.

Theorem C13_dollar_out_of_range_unbound : dollar_out_of_range_unbound_stmt.
Proof. exact dollar_out_of_range_unbound. Qed.
Print Assumptions C13_dollar_out_of_range_unbound.

Theorem C13_lexerdef_flags_roundtrip : lexerdef_flags_roundtrip_stmt.
Proof. exact lexerdef_flags_roundtrip. Qed.
Print Assumptions C13_lexerdef_flags_roundtrip.

Theorem C13_fill_idempotent : fill_idempotent_stmt.
Proof. exact fill_idempotent. Qed.
Print Assumptions C13_fill_idempotent.

Theorem C13_fill_spec : fill_spec_stmt.
Proof. exact fill_spec. Qed.
Print Assumptions C13_fill_spec.

Theorem C13_rule_new_no_panic : rule_new_no_panic_stmt.
Proof. exact rule_new_no_panic. Qed.
Print Assumptions C13_rule_new_no_panic.
