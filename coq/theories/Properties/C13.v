From GV Require Import Common.Outcome C13.Model C13.Spec C13.Proofs.
From GV Require Import C13.PipelineModel C13.PipelineSpec C13.PipelineProofs.
From GV Require Import C13.PipelineRunModel C13.PipelineRunSpec C13.PipelineRunProofs.
From GV Require Import C13.SettingsModel C13.SettingsSpec C13.SettingsProofs.

Theorem C13_subst_mirror_meets_spec : subst_mirror_meets_spec_stmt.
Proof. exact subst_mirror_meets_spec. Qed.
Print Assumptions C13_subst_mirror_meets_spec.

Theorem C13_subst_ok : subst_ok_stmt.
Proof. exact subst_ok. Qed.
Print Assumptions C13_subst_ok.

Theorem C13_subst_err : subst_err_stmt.
Proof. exact subst_err. Qed.
Print Assumptions C13_subst_err.

Theorem C13_spec_total : spec_total_stmt.
Proof. exact spec_total. Qed.
Print Assumptions C13_spec_total.

Theorem C13_tokenises_unique : tokenises_unique_stmt.
Proof. exact tokenises_unique. Qed.
Print Assumptions C13_tokenises_unique.

Theorem C13_wrapper_args_spec : wrapper_args_spec_stmt.
Proof. exact wrapper_args_spec. Qed.
Print Assumptions C13_wrapper_args_spec.

Theorem C13_wrapper_panics_only_on_mismatch : wrapper_panics_only_on_mismatch_stmt.
Proof. exact wrapper_panics_only_on_mismatch. Qed.
Print Assumptions C13_wrapper_panics_only_on_mismatch.

Theorem C13_dollar_k_denotes_kth : dollar_k_denotes_kth_stmt.
Proof. exact dollar_k_denotes_kth. Qed.
Print Assumptions C13_dollar_k_denotes_kth.

Theorem C13_dollar_out_of_range_unbound : dollar_out_of_range_unbound_stmt.
Proof. exact dollar_out_of_range_unbound. Qed.
Print Assumptions C13_dollar_out_of_range_unbound.

Theorem C13_lexerdef_flags_roundtrip : lexerdef_flags_roundtrip_stmt.
Proof. exact lexerdef_flags_roundtrip. Qed.
Print Assumptions C13_lexerdef_flags_roundtrip.

Theorem C13_fill_idempotent : fill_idempotent_stmt.
Proof. exact fill_idempotent. Qed.
Print Assumptions C13_fill_idempotent.

Theorem C13_fill_spec : fill_spec_stmt.
Proof. exact fill_spec. Qed.
Print Assumptions C13_fill_spec.

Theorem C13_rule_new_no_panic : rule_new_no_panic_stmt.
Proof. exact rule_new_no_panic. Qed.
Print Assumptions C13_rule_new_no_panic.

(* ---- compile-time pipeline = run-time pipeline over the C14 codec (PipelineSpec.v) ---- *)

Theorem C13_ct_equals_rt_generic : ct_equals_rt_generic_stmt.
Proof. exact ct_equals_rt_generic. Qed.
Print Assumptions C13_ct_equals_rt_generic.

Theorem C13_ct_equals_rt : ct_equals_rt_stmt.
Proof. exact ct_equals_rt. Qed.
Print Assumptions C13_ct_equals_rt.

Theorem C13_ct_equals_rt_bytes : ct_equals_rt_bytes_stmt.
Proof. exact ct_equals_rt_bytes. Qed.
Print Assumptions C13_ct_equals_rt_bytes.

Theorem C13_parser_data_reconstitutes : parser_data_reconstitutes_stmt.
Proof. exact parser_data_reconstitutes. Qed.
Print Assumptions C13_parser_data_reconstitutes.

Theorem C13_ct_parse_format_independent : ct_parse_format_independent_stmt.
Proof. exact ct_parse_format_independent. Qed.
Print Assumptions C13_ct_parse_format_independent.

Theorem C13_format_mismatch_breaks : format_mismatch_breaks_stmt.
Proof. exact format_mismatch_breaks. Qed.
Print Assumptions C13_format_mismatch_breaks.

Theorem C13_kind_is_passed_through : kind_is_passed_through_stmt.
Proof. exact kind_is_passed_through. Qed.
Print Assumptions C13_kind_is_passed_through.

Theorem C13_quote_rule_roundtrip : quote_rule_roundtrip_stmt.
Proof. exact quote_rule_roundtrip. Qed.
Print Assumptions C13_quote_rule_roundtrip.

Theorem C13_quote_start_state_roundtrip : quote_start_state_roundtrip_stmt.
Proof. exact quote_start_state_roundtrip. Qed.
Print Assumptions C13_quote_start_state_roundtrip.

Theorem C13_ct_lexerdef_equals_rt : ct_lexerdef_equals_rt_stmt.
Proof. exact ct_lexerdef_equals_rt. Qed.
Print Assumptions C13_ct_lexerdef_equals_rt.

Theorem C13_ct_lex_equals_rt : ct_lex_equals_rt_stmt.
Proof. exact ct_lex_equals_rt. Qed.
Print Assumptions C13_ct_lex_equals_rt.

Theorem C13_rt_lexerdef_no_panic : rt_lexerdef_no_panic_stmt.
Proof. exact rt_lexerdef_no_panic. Qed.
Print Assumptions C13_rt_lexerdef_no_panic.

Theorem C13_lexerdef_flags_needed : lexerdef_flags_needed_stmt.
Proof. exact lexerdef_flags_needed. Qed.
Print Assumptions C13_lexerdef_flags_needed.

(* ---- per run / erroneous inputs with several equally ranked repairs (PipelineRunSpec.v; /repo ca69cd1) ---- *)

Theorem C13_ct_runs_are_rt_runs : ct_runs_are_rt_runs_stmt.
Proof. exact ct_runs_are_rt_runs. Qed.
Print Assumptions C13_ct_runs_are_rt_runs.

Theorem C13_ct_equals_rt_value : ct_equals_rt_value_stmt.
Proof. exact ct_equals_rt_value. Qed.
Print Assumptions C13_ct_equals_rt_value.

Theorem C13_ct_equals_rt_value_refuted : ct_equals_rt_value_refuted_stmt.
Proof. exact ct_equals_rt_value_refuted. Qed.
Print Assumptions C13_ct_equals_rt_value_refuted.

Theorem C13_graph_determined : graph_determined_stmt.
Proof. exact graph_determined. Qed.
Print Assumptions C13_graph_determined.

Theorem C13_fixed_run_determined : fixed_run_determined_stmt.
Proof. exact fixed_run_determined. Qed.
Print Assumptions C13_fixed_run_determined.

Theorem C13_fixed_refines_pinned : fixed_refines_pinned_stmt.
Proof. exact fixed_refines_pinned. Qed.
Print Assumptions C13_fixed_refines_pinned.

Theorem C13_tied_keep_found_order : tied_keep_found_order_stmt.
Proof. exact tied_keep_found_order. Qed.
Print Assumptions C13_tied_keep_found_order.

Theorem C13_aud_fixed_value : aud_fixed_value_stmt.
Proof. exact aud_fixed_value. Qed.
Print Assumptions C13_aud_fixed_value.

Theorem C13_settings_in_force : settings_in_force_stmt.
Proof. exact settings_in_force. Qed.
Print Assumptions C13_settings_in_force.

Theorem C13_settings_merge_never_conflicts : settings_merge_never_conflicts_stmt.
Proof. exact settings_merge_never_conflicts. Qed.
Print Assumptions C13_settings_merge_never_conflicts.

Theorem C13_builder_setting_wins : builder_setting_wins_stmt.
Proof. exact builder_setting_wins. Qed.
Print Assumptions C13_builder_setting_wins.

Theorem C13_section_setting_used_otherwise : section_setting_used_otherwise_stmt.
Proof. exact section_setting_used_otherwise. Qed.
Print Assumptions C13_section_setting_used_otherwise.

Theorem C13_unknown_keys_reported : unknown_keys_reported_stmt.
Proof. exact unknown_keys_reported. Qed.
Print Assumptions C13_unknown_keys_reported.

Theorem C13_settings_never_use_theirs : settings_never_use_theirs_stmt.
Proof. exact settings_never_use_theirs. Qed.
Print Assumptions C13_settings_never_use_theirs.

Theorem C13_section_has_no_bare_marks : section_has_no_bare_marks_stmt.
Proof. exact section_has_no_bare_marks. Qed.
Print Assumptions C13_section_has_no_bare_marks.

Theorem C13_section_of_parsed : section_of_parsed_stmt.
Proof. exact section_of_parsed. Qed.
Print Assumptions C13_section_of_parsed.

From GV Require Import C13.LexSettingsModel C13.LexSettingsSpec C13.LexSettingsProofs.

Theorem C13_lex_settings_in_force : lex_settings_in_force_stmt.
Proof. exact lex_settings_in_force. Qed.
Print Assumptions C13_lex_settings_in_force.

Theorem C13_lex_settings_merge_never_conflicts : lex_settings_merge_never_conflicts_stmt.
Proof. exact lex_settings_merge_never_conflicts. Qed.
Print Assumptions C13_lex_settings_merge_never_conflicts.

Theorem C13_lex_unknown_keys_reported : lex_unknown_keys_reported_stmt.
Proof. exact lex_unknown_keys_reported. Qed.
Print Assumptions C13_lex_unknown_keys_reported.

Theorem C13_lex_header_of_builder : lex_header_of_builder_stmt.
Proof. exact lex_header_of_builder. Qed.
Print Assumptions C13_lex_header_of_builder.
