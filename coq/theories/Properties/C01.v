From GV Require Import Base.Grammar Base.Analyses LR.Automaton LR.Validator LR.Spec LR.Sound LR.Complete.

From GV Require Import Common.Outcome LR.CloseMirror LR.CloseSpec LR.CloseProofs.
From GV Require LR.TermSpec Properties.LRterm.
Theorem C01_lr_sound : lr_sound_stmt.
Proof. exact lr_sound. Qed.
Print Assumptions C01_lr_sound.

Theorem C01_lr_never_panics : lr_never_panics_stmt.
Proof. exact lr_never_panics. Qed.
Print Assumptions C01_lr_never_panics.

Theorem C01_lr_complete : lr_complete_stmt.
Proof. exact lr_complete. Qed.
Print Assumptions C01_lr_complete.

Theorem C01_lr_accepts_sentences : lr_accepts_sentences_stmt.
Proof. exact lr_accepts_sentences. Qed.
Print Assumptions C01_lr_accepts_sentences.

Theorem C01_lr_rejects_nonsentences : lr_rejects_nonsentences_stmt.
Proof. exact lr_rejects_nonsentences. Qed.
Print Assumptions C01_lr_rejects_nonsentences.

Theorem C01_run_fuel_mono : run_fuel_mono_stmt.
Proof. exact run_fuel_mono. Qed.
Print Assumptions C01_run_fuel_mono.

(* table construction, part proved: Itemset::close and Itemset::goto (mirrors of the Rust loops) compute the LR(1) closure / goto *)

Theorem C01_close_mirror_sound : close_mirror_sound_stmt.
Proof. exact close_mirror_sound. Qed.
Print Assumptions C01_close_mirror_sound.

Theorem C01_close_mirror_complete : close_mirror_complete_stmt.
Proof. exact close_mirror_complete. Qed.
Print Assumptions C01_close_mirror_complete.

Theorem C01_close_mirror_result_ok : close_mirror_result_ok_stmt.
Proof. exact close_mirror_result_ok. Qed.
Print Assumptions C01_close_mirror_result_ok.

Theorem C01_close_mirror_terminates : close_mirror_terminates_stmt.
Proof. exact close_mirror_terminates. Qed.
Print Assumptions C01_close_mirror_terminates.

Theorem C01_close_mirror_never_panics : close_mirror_never_panics_stmt.
Proof. exact close_mirror_never_panics. Qed.
Print Assumptions C01_close_mirror_never_panics.

Theorem C01_close_mirror_order_insensitive : close_mirror_order_insensitive_stmt.
Proof. exact close_mirror_order_insensitive. Qed.
Print Assumptions C01_close_mirror_order_insensitive.

Theorem C01_goto_mirror_spec : goto_mirror_spec_stmt.
Proof. exact goto_mirror_spec. Qed.
Print Assumptions C01_goto_mirror_spec.

Theorem C01_first_of_form_split : first_of_form_split_stmt.
Proof. exact first_of_form_split. Qed.
Print Assumptions C01_first_of_form_split.

Theorem C01_lr1_textbook_incl : lr1_textbook_incl_stmt.
Proof. exact lr1_textbook_incl. Qed.
Print Assumptions C01_lr1_textbook_incl.

Theorem C01_lr1_textbook_agrees : lr1_textbook_agrees_stmt.
Proof. exact lr1_textbook_agrees. Qed.
Print Assumptions C01_lr1_textbook_agrees.

Theorem C01_close_mirror_sound_textbook_refuted : close_mirror_sound_textbook_refuted_stmt.
Proof. exact close_mirror_sound_textbook_refuted. Qed.
Print Assumptions C01_close_mirror_sound_textbook_refuted.

(* the parse loop always returns on a validated conflict-free table of a productive grammar in which no rule derives
   just itself, within the explicit fuel lr_fuel g input *)
Theorem C01_lr_terminates_validated : GV.LR.TermSpec.lr_terminates_validated_stmt.
Proof. exact GV.Properties.LRterm.LRterm_lr_terminates_validated. Qed.
Print Assumptions C01_lr_terminates_validated.

