From GV Require Import Base.Grammar Base.Analyses LR.Automaton LR.Validator LR.Spec LR.Sound LR.Complete.

From GV Require Import Common.Outcome LR.CloseMirror LR.CloseSpec LR.CloseProofs.
From GV Require LR.TermSpec Properties.LRterm.
Theorem C01_lr_sound : lr_sound_stmt.
Proof. exact lr_sound. Qed.
Print Assumptions C01_lr_sound.

Theorem C01_lr_never_panics : lr_never_panics_stmt.
Proof. exact lr_never_panics. Qed.
Print Assumptions C01_lr_never_panics.

Theorem C01_lr_complete : lr_complete_stmt.
Proof. exact lr_complete. Qed.
Print Assumptions C01_lr_complete.

Theorem C01_lr_accepts_sentences : lr_accepts_sentences_stmt.
Proof. exact lr_accepts_sentences. Qed.
Print Assumptions C01_lr_accepts_sentences.

Theorem C01_lr_rejects_nonsentences : lr_rejects_nonsentences_stmt.
Proof. exact lr_rejects_nonsentences. Qed.
Print Assumptions C01_lr_rejects_nonsentences.

Theorem C01_run_fuel_mono : run_fuel_mono_stmt.
Proof. exact run_fuel_mono. Qed.
Print Assumptions C01_run_fuel_mono.

(* table construction, part proved: Itemset::close and Itemset::goto (mirrors of the Rust loops) compute the LR(1) closure / goto *)

Theorem C01_close_mirror_sound : close_mirror_sound_stmt.
Proof. exact close_mirror_sound. Qed.
Print Assumptions C01_close_mirror_sound.

Theorem C01_close_mirror_complete : close_mirror_complete_stmt.
Proof. exact close_mirror_complete. Qed.
Print Assumptions C01_close_mirror_complete.

Theorem C01_close_mirror_result_ok : close_mirror_result_ok_stmt.
Proof. exact close_mirror_result_ok. Qed.
Print Assumptions C01_close_mirror_result_ok.

Theorem C01_close_mirror_terminates : close_mirror_terminates_stmt.
Proof. exact close_mirror_terminates. Qed.
Print Assumptions C01_close_mirror_terminates.

Theorem C01_close_mirror_never_panics : close_mirror_never_panics_stmt.
Proof. exact close_mirror_never_panics. Qed.
Print Assumptions C01_close_mirror_never_panics.

Theorem C01_close_mirror_order_insensitive : close_mirror_order_insensitive_stmt.
Proof. exact close_mirror_order_insensitive. Qed.
Print Assumptions C01_close_mirror_order_insensitive.

Theorem C01_goto_mirror_spec : goto_mirror_spec_stmt.
Proof. exact goto_mirror_spec. Qed.
Print Assumptions C01_goto_mirror_spec.

Theorem C01_first_of_form_split : first_of_form_split_stmt.
Proof. exact first_of_form_split. Qed.
Print Assumptions C01_first_of_form_split.

Theorem C01_lr1_textbook_incl : lr1_textbook_incl_stmt.
Proof. exact lr1_textbook_incl. Qed.
Print Assumptions C01_lr1_textbook_incl.

Theorem C01_lr1_textbook_agrees : lr1_textbook_agrees_stmt.
Proof. exact lr1_textbook_agrees. Qed.
Print Assumptions C01_lr1_textbook_agrees.

Theorem C01_close_mirror_sound_textbook_refuted : close_mirror_sound_textbook_refuted_stmt.
Proof. exact close_mirror_sound_textbook_refuted. Qed.
Print Assumptions C01_close_mirror_sound_textbook_refuted.

(* the parse loop always returns on a validated conflict-free table of a productive grammar in which no rule derives
   just itself, within the explicit fuel lr_fuel g input *)
Theorem C01_lr_terminates_validated : GV.LR.TermSpec.lr_terminates_validated_stmt.
Proof. exact GV.Properties.LRterm.LRterm_lr_terminates_validated. Qed.
Print Assumptions C01_lr_terminates_validated.


(* ---- the construction END TO END (theories/C01/Pipeline*.v): the mirror of lrtable::from_yacc =
   mirror of pager_stategraph + gc (C02) composed with the mirror of StateTable::new (C03), for every
   grammar, every oracle of hash orders, every StorageT bound.  The table it builds ALWAYS passes
   validS/validE, so C01's first clause holds for it whatever conflicts were resolved; when the
   construction reports no conflict and precedence settled no cell it coincides with the automaton
   induced by the graph and passes validC/single_candidate, so C01's second clause holds. *)
From GV Require Import C02.LoopModel C02.LoopSpec C03.Model C03.Spec.
From GV Require Import C01.Pipeline C01.PipelineSpec C01.PipelineEdges C01.PipelineTable C01.PipelineProofs
  C01.PipelineProofsC C01.PipelineMain C01.PipelineDecl.
From GV Require C01.PipelineExamples.

Theorem C01_pager_mirror_edges_nodup : pager_mirror_edges_nodup_stmt.
Proof. exact pager_mirror_edges_nodup. Qed.
Print Assumptions C01_pager_mirror_edges_nodup.

Theorem C01_pager_mirror_all_reachable : pager_mirror_all_reachable_stmt.
Proof. exact pager_mirror_all_reachable. Qed.
Print Assumptions C01_pager_mirror_all_reachable.

Theorem C01_construction_validated : construction_validated_stmt.
Proof. exact construction_validated. Qed.
Print Assumptions C01_construction_validated.

Theorem C01_construction_sound : construction_sound_stmt.
Proof. exact construction_sound. Qed.
Print Assumptions C01_construction_sound.

Theorem C01_construction_never_panics : construction_never_panics_stmt.
Proof. exact construction_never_panics. Qed.
Print Assumptions C01_construction_never_panics.

Theorem C01_construction_rejects_nonsentences : construction_rejects_nonsentences_stmt.
Proof. exact construction_rejects_nonsentences. Qed.
Print Assumptions C01_construction_rejects_nonsentences.

Theorem C01_construction_agrees_with_induced : construction_agrees_with_induced_stmt.
Proof. exact construction_agrees_with_induced. Qed.
Print Assumptions C01_construction_agrees_with_induced.

Theorem C01_construction_conflict_free : construction_conflict_free_stmt.
Proof. exact construction_conflict_free. Qed.
Print Assumptions C01_construction_conflict_free.

Theorem C01_construction_complete : construction_complete_stmt.
Proof. exact construction_complete. Qed.
Print Assumptions C01_construction_complete.

Theorem C01_construction_accepts_sentences : construction_accepts_sentences_stmt.
Proof. exact construction_accepts_sentences. Qed.
Print Assumptions C01_construction_accepts_sentences.

Theorem C01_construction_noprec_complete : construction_noprec_complete_stmt.
Proof. exact construction_noprec_complete. Qed.
Print Assumptions C01_construction_noprec_complete.

Theorem C01_construction_complete_reports_only_refuted : construction_complete_reports_only_refuted_stmt.
Proof. exact GV.C01.PipelineExamples.construction_complete_reports_only_refuted. Qed.
Print Assumptions C01_construction_complete_reports_only_refuted.

Theorem C01_construction_total : construction_total_stmt.
Proof. exact construction_total. Qed.
Print Assumptions C01_construction_total.

Theorem C01_construction_lr1_correct : construction_lr1_correct_stmt.
Proof. exact construction_lr1_correct. Qed.
Print Assumptions C01_construction_lr1_correct.

Theorem C01_construction_decl_sound : construction_decl_sound_stmt.
Proof. exact construction_decl_sound. Qed.
Print Assumptions C01_construction_decl_sound.

Theorem C01_construction_decl_complete : construction_decl_complete_stmt.
Proof. exact construction_decl_complete. Qed.
Print Assumptions C01_construction_decl_complete.
