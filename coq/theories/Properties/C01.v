From GV Require Import Base.Grammar Base.Analyses LR.Automaton LR.Validator LR.Spec LR.Sound LR.Complete.

Theorem C01_lr_sound : lr_sound_stmt.
Proof. exact lr_sound. Qed.
Print Assumptions C01_lr_sound.

Theorem C01_lr_never_panics : lr_never_panics_stmt.
Proof. exact lr_never_panics. Qed.
Print Assumptions C01_lr_never_panics.

Theorem C01_lr_complete : lr_complete_stmt.
Proof. exact lr_complete. Qed.
Print Assumptions C01_lr_complete.

Theorem C01_lr_accepts_sentences : lr_accepts_sentences_stmt.
Proof. exact lr_accepts_sentences. Qed.
Print Assumptions C01_lr_accepts_sentences.

Theorem C01_lr_rejects_nonsentences : lr_rejects_nonsentences_stmt.
Proof. exact lr_rejects_nonsentences. Qed.
Print Assumptions C01_lr_rejects_nonsentences.

Theorem C01_run_fuel_mono : run_fuel_mono_stmt.
Proof. exact run_fuel_mono. Qed.
Print Assumptions C01_run_fuel_mono.
