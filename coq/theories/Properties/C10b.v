From GV Require Import C10.YpExports.

Theorem C10b_ws_skips_layout_refuted : ws_skips_layout_refuted_stmt.
Proof. exact ws_skips_layout_refuted. Qed.
Print Assumptions C10b_ws_skips_layout_refuted.
