From GV Require Import Common.Outcome C09.Model C09.Spec C09.Proofs C09.Lookbehind.

Theorem C09_lex_total : lex_total_stmt.
Proof. exact lex_total. Qed.
Print Assumptions C09_lex_total.

Theorem C09_lex_choice_spec : lex_choice_spec_stmt.
Proof. exact lex_choice_spec. Qed.
Print Assumptions C09_lex_choice_spec.

Theorem C09_lex_tiles : lex_tiles_stmt.
Proof. exact lex_tiles. Qed.
Print Assumptions C09_lex_tiles.

Theorem C09_named_emit_unnamed_skip : named_emit_unnamed_skip_stmt.
Proof. exact named_emit_unnamed_skip. Qed.
Print Assumptions C09_named_emit_unnamed_skip.

Theorem C09_lex_states : lex_states_stmt.
Proof. exact lex_states. Qed.
Print Assumptions C09_lex_states.

Theorem C09_rle_stack_refines_stack : rle_stack_refines_stack_stmt.
Proof. exact rle_stack_refines_stack. Qed.
Print Assumptions C09_rle_stack_refines_stack.

Theorem C09_inclusive_exclusive : inclusive_exclusive_stmt.
Proof. exact inclusive_exclusive. Qed.
Print Assumptions C09_inclusive_exclusive.

Theorem C09_set_rule_ids_exact : set_rule_ids_exact_stmt.
Proof. exact set_rule_ids_exact. Qed.
Print Assumptions C09_set_rule_ids_exact.

Theorem C09_set_rule_ids_dup_names_refuted : set_rule_ids_dup_names_refuted_stmt.
Proof. exact set_rule_ids_dup_names_refuted. Qed.
Print Assumptions C09_set_rule_ids_dup_names_refuted.

Theorem C09_lex_table_extensional : lex_table_extensional_stmt.
Proof. exact lex_table_extensional. Qed.
Print Assumptions C09_lex_table_extensional.

Theorem C09_lookbehind_tables_differ_refuted : lookbehind_tables_differ_refuted_stmt.
Proof. exact lookbehind_tables_differ_refuted. Qed.
Print Assumptions C09_lookbehind_tables_differ_refuted.
