From GV Require Import Common.Outcome C14.Model C14.Schema_gen C14.Spec C14.Proofs C14.LimitProofs.

Theorem C14_codec_roundtrip : codec_roundtrip_stmt.
Proof. exact codec_roundtrip. Qed.
Print Assumptions C14_codec_roundtrip.

Theorem C14_codec_roundtrip_needs_wf : codec_roundtrip_needs_wf_stmt.
Proof. exact codec_roundtrip_needs_wf. Qed.
Print Assumptions C14_codec_roundtrip_needs_wf.

Theorem C14_codec_decode_sound : codec_decode_sound_stmt.
Proof. exact codec_decode_sound. Qed.
Print Assumptions C14_codec_decode_sound.

Theorem C14_codec_canonical_fixint : codec_canonical_fixint_stmt.
Proof. exact codec_canonical_fixint. Qed.
Print Assumptions C14_codec_canonical_fixint.

Theorem C14_codec_canonical_varint_refuted : codec_canonical_varint_refuted_stmt.
Proof. exact codec_canonical_varint_refuted. Qed.
Print Assumptions C14_codec_canonical_varint_refuted.

Theorem C14_codec_canonical_minimal : codec_canonical_minimal_stmt.
Proof. exact codec_canonical_minimal. Qed.
Print Assumptions C14_codec_canonical_minimal.

Theorem C14_grammar_reconstitute : grammar_reconstitute_stmt.
Proof. exact grammar_reconstitute. Qed.
Print Assumptions C14_grammar_reconstitute.

Theorem C14_table_reconstitute : table_reconstitute_stmt.
Proof. exact table_reconstitute. Qed.
Print Assumptions C14_table_reconstitute.

Theorem C14_decode_limited_exact : decode_limited_exact_stmt.
Proof. exact decode_limited_exact. Qed.
Print Assumptions C14_decode_limited_exact.

Theorem C14_decode_limited_agrees_below_limit : decode_limited_agrees_below_limit_stmt.
Proof. exact decode_limited_agrees_below_limit. Qed.
Print Assumptions C14_decode_limited_agrees_below_limit.

Theorem C14_codec_roundtrip_within_limit : codec_roundtrip_within_limit_stmt.
Proof. exact codec_roundtrip_within_limit. Qed.
Print Assumptions C14_codec_roundtrip_within_limit.

Theorem C14_codec_roundtrip_limited_refuted : codec_roundtrip_limited_refuted_stmt.
Proof. exact codec_roundtrip_limited_refuted. Qed.
Print Assumptions C14_codec_roundtrip_limited_refuted.

Theorem C14_limited_build_fails_iff : limited_build_fails_iff_stmt.
Proof. exact limited_build_fails_iff. Qed.
Print Assumptions C14_limited_build_fails_iff.
