From GV Require Import C03.Model C03.Spec C03.Proofs C03.Small C03.Examples C03.Yacc3 C03.Yacc3Spec C03.Yacc3Proofs.

Theorem C03_state_mirror_meets_spec : state_mirror_meets_spec_stmt.
Proof. exact state_mirror_meets_spec. Qed.
Print Assumptions C03_state_mirror_meets_spec.

Theorem C03_table_mirror_meets_spec : table_mirror_meets_spec_stmt.
Proof. exact table_mirror_meets_spec. Qed.
Print Assumptions C03_table_mirror_meets_spec.

Theorem C03_token_prec_mirror_meets_spec : token_prec_mirror_meets_spec_stmt.
Proof. exact token_prec_mirror_meets_spec. Qed.
Print Assumptions C03_token_prec_mirror_meets_spec.

Theorem C03_levels_from_decl_order : levels_from_decl_order_stmt.
Proof. exact levels_from_decl_order. Qed.
Print Assumptions C03_levels_from_decl_order.

Theorem C03_decl_precs_consistent : decl_precs_consistent_stmt.
Proof. exact decl_precs_consistent. Qed.
Print Assumptions C03_decl_precs_consistent.

Theorem C03_prod_prec_rule : prod_prec_rule_stmt.
Proof. exact prod_prec_rule. Qed.
Print Assumptions C03_prod_prec_rule.

Theorem C03_prod_prec_spec_functional : prod_prec_spec_functional_stmt.
Proof. exact prod_prec_spec_functional. Qed.
Print Assumptions C03_prod_prec_spec_functional.

Theorem C03_expect_rule : expect_rule_stmt.
Proof. exact expect_rule. Qed.
Print Assumptions C03_expect_rule.

Theorem C03_expect_mirror_characterised : expect_mirror_characterised_stmt.
Proof. exact expect_mirror_characterised. Qed.
Print Assumptions C03_expect_mirror_characterised.

Theorem C03_expect_mirror_refuted : expect_mirror_refuted_stmt.
Proof. exact expect_mirror_refuted. Qed.
Print Assumptions C03_expect_mirror_refuted.

Theorem C03_wf_state_b_sound : wf_state_b_sound_stmt.
Proof. exact wf_state_b_sound. Qed.
Print Assumptions C03_wf_state_b_sound.

Theorem C03_prec_consistent_b_sound : prec_consistent_b_sound_stmt.
Proof. exact prec_consistent_b_sound. Qed.
Print Assumptions C03_prec_consistent_b_sound.

Theorem C03_yacc_agrees_outside_three_way : yacc_agrees_outside_three_way_stmt.
Proof. exact yacc_agrees_outside_three_way. Qed.
Print Assumptions C03_yacc_agrees_outside_three_way.

Theorem C03_sr_cell_spec_is_sr_spec : sr_cell_spec_is_sr_spec_stmt.
Proof. exact sr_cell_spec_is_sr_spec. Qed.
Print Assumptions C03_sr_cell_spec_is_sr_spec.

Theorem C03_yacc_disagreement_is_three_way : yacc_disagreement_is_three_way_stmt.
Proof. exact yacc_disagreement_is_three_way. Qed.
Print Assumptions C03_yacc_disagreement_is_three_way.

Theorem C03_rr_ok_cellwise : rr_ok_cellwise_stmt.
Proof. exact rr_ok_cellwise. Qed.
Print Assumptions C03_rr_ok_cellwise.

Theorem C03_rr_cell_ok_two_unique : rr_cell_ok_two_unique_stmt.
Proof. exact rr_cell_ok_two_unique. Qed.
Print Assumptions C03_rr_cell_ok_two_unique.

Theorem C03_mirror_cell : mirror_cell_stmt.
Proof. exact mirror_cell. Qed.
Print Assumptions C03_mirror_cell.

Theorem C03_three_way_left_refuted : three_way_left_refuted_stmt.
Proof. exact three_way_left_refuted. Qed.
Print Assumptions C03_three_way_left_refuted.

Theorem C03_three_way_nonassoc_refuted : three_way_nonassoc_refuted_stmt.
Proof. exact three_way_nonassoc_refuted. Qed.
Print Assumptions C03_three_way_nonassoc_refuted.

Theorem C03_three_way_report_refuted : three_way_report_refuted_stmt.
Proof. exact three_way_report_refuted. Qed.
Print Assumptions C03_three_way_report_refuted.

Theorem C03_bison_eq_yacc_outside_three_way : bison_eq_yacc_outside_three_way_stmt.
Proof. exact bison_eq_yacc_outside_three_way. Qed.
Print Assumptions C03_bison_eq_yacc_outside_three_way.

Theorem C03_bison_yacc_differ : bison_yacc_differ_stmt.
Proof. exact bison_yacc_differ. Qed.
Print Assumptions C03_bison_yacc_differ.

Theorem C03_cell_bison_eq_yacc_outside_three_way : cell_bison_eq_yacc_outside_three_way_stmt.
Proof. exact cell_bison_eq_yacc_outside_three_way. Qed.
Print Assumptions C03_cell_bison_eq_yacc_outside_three_way.

Theorem C03_bison_yacc_count_differ : bison_yacc_count_differ_stmt.
Proof. exact bison_yacc_count_differ. Qed.
Print Assumptions C03_bison_yacc_count_differ.

Theorem C03_bison_agrees_without_token_prec : bison_agrees_without_token_prec_stmt.
Proof. exact bison_agrees_without_token_prec. Qed.
Print Assumptions C03_bison_agrees_without_token_prec.
