From GV Require Import C03.Model C03.Spec C03.Proofs C03.Small C03.Examples.

Theorem C03_state_mirror_meets_spec : state_mirror_meets_spec_stmt.
Proof. exact state_mirror_meets_spec. Qed.
Print Assumptions C03_state_mirror_meets_spec.

Theorem C03_table_mirror_meets_spec : table_mirror_meets_spec_stmt.
Proof. exact table_mirror_meets_spec. Qed.
Print Assumptions C03_table_mirror_meets_spec.

Theorem C03_token_prec_mirror_meets_spec : token_prec_mirror_meets_spec_stmt.
Proof. exact token_prec_mirror_meets_spec. Qed.
Print Assumptions C03_token_prec_mirror_meets_spec.

Theorem C03_levels_from_decl_order : levels_from_decl_order_stmt.
Proof. exact levels_from_decl_order. Qed.
Print Assumptions C03_levels_from_decl_order.

Theorem C03_decl_precs_consistent : decl_precs_consistent_stmt.
Proof. exact decl_precs_consistent. Qed.
Print Assumptions C03_decl_precs_consistent.

Theorem C03_prod_prec_rule : prod_prec_rule_stmt.
Proof. exact prod_prec_rule. Qed.
Print Assumptions C03_prod_prec_rule.

Theorem C03_prod_prec_spec_functional : prod_prec_spec_functional_stmt.
Proof. exact prod_prec_spec_functional. Qed.
Print Assumptions C03_prod_prec_spec_functional.

Theorem C03_expect_rule : expect_rule_stmt.
Proof. exact expect_rule. Qed.
Print Assumptions C03_expect_rule.

Theorem C03_expect_mirror_characterised : expect_mirror_characterised_stmt.
Proof. exact expect_mirror_characterised. Qed.
Print Assumptions C03_expect_mirror_characterised.

Theorem C03_expect_mirror_refuted : expect_mirror_refuted_stmt.
Proof. exact expect_mirror_refuted. Qed.
Print Assumptions C03_expect_mirror_refuted.

Theorem C03_wf_state_b_sound : wf_state_b_sound_stmt.
Proof. exact wf_state_b_sound. Qed.
Print Assumptions C03_wf_state_b_sound.

Theorem C03_prec_consistent_b_sound : prec_consistent_b_sound_stmt.
Proof. exact prec_consistent_b_sound. Qed.
Print Assumptions C03_prec_consistent_b_sound.
