From GV Require Import Common.Outcome C18.Model C18.Spec C18.Proofs.

Theorem C18_incremental_equals_clean : incremental_equals_clean_stmt.
Proof. exact incremental_equals_clean. Qed.
Print Assumptions C18_incremental_equals_clean.

Theorem C18_regenerated_iff_changed : regenerated_iff_changed_stmt.
Proof. exact regenerated_iff_changed. Qed.
Print Assumptions C18_regenerated_iff_changed.

Theorem C18_rebuild_is_noop : rebuild_is_noop_stmt.
Proof. exact rebuild_is_noop. Qed.
Print Assumptions C18_rebuild_is_noop.

Theorem C18_cache_misses_exactly_storaget : cache_misses_exactly_storaget_stmt.
Proof. exact cache_misses_exactly_storaget. Qed.
Print Assumptions C18_cache_misses_exactly_storaget.

Theorem C18_storaget_fixed_cache_injective : storaget_fixed_cache_injective_stmt.
Proof. exact storaget_fixed_cache_injective. Qed.
Print Assumptions C18_storaget_fixed_cache_injective.

Theorem C18_storaget_recorded_cache_injective : storaget_recorded_cache_injective_stmt.
Proof. exact storaget_recorded_cache_injective. Qed.
Print Assumptions C18_storaget_recorded_cache_injective.

Theorem C18_incremental_equals_clean_needs_cache_injective_refuted :
  incremental_equals_clean_needs_cache_injective_refuted_stmt.
Proof. exact incremental_equals_clean_needs_cache_injective_refuted. Qed.
Print Assumptions C18_incremental_equals_clean_needs_cache_injective_refuted.

Theorem C18_failed_build_leaves_no_stale_refuted : failed_build_leaves_no_stale_refuted_stmt.
Proof. exact failed_build_leaves_no_stale_refuted. Qed.
Print Assumptions C18_failed_build_leaves_no_stale_refuted.

Theorem C18_failed_build_leaves_no_stale_fixed : failed_build_leaves_no_stale_fixed_stmt.
Proof. exact failed_build_leaves_no_stale_fixed. Qed.
Print Assumptions C18_failed_build_leaves_no_stale_fixed.

Theorem C18_conflict_failure_deletes_parser_output : conflict_failure_deletes_parser_output_stmt.
Proof. exact conflict_failure_deletes_parser_output. Qed.
Print Assumptions C18_conflict_failure_deletes_parser_output.

Theorem C18_runG_fst : runG_fst_stmt.
Proof. exact runG_fst. Qed.
Print Assumptions C18_runG_fst.
