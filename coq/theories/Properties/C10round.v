From GV Require Import C10.YpRoundExports.

Theorem C10round_yacc_roundtrip : yacc_roundtrip_stmt.
Proof. exact yacc_roundtrip. Qed.
Print Assumptions C10round_yacc_roundtrip.

Theorem C10round_yacc_parse_roundtrip : yacc_parse_roundtrip_stmt.
Proof. exact yacc_parse_roundtrip. Qed.
Print Assumptions C10round_yacc_parse_roundtrip.

Theorem C10round_validation_clean : validation_clean_stmt.
Proof. exact validation_clean. Qed.
Print Assumptions C10round_validation_clean.

Theorem C10round_ast_of_faithful : ast_of_faithful_stmt.
Proof. exact ast_of_faithful. Qed.
Print Assumptions C10round_ast_of_faithful.

Theorem C10round_ast_of_spans_select : ast_of_spans_select_stmt.
Proof. exact ast_of_spans_select. Qed.
Print Assumptions C10round_ast_of_spans_select.

Theorem C10round_declarations_roundtrip : declarations_roundtrip_stmt.
Proof. exact declarations_roundtrip. Qed.
Print Assumptions C10round_declarations_roundtrip.

Theorem C10round_decl_step : decl_step_stmt.
Proof. exact decl_step. Qed.
Print Assumptions C10round_decl_step.

Theorem C10round_decls_pre_wf : decls_pre_wf_stmt.
Proof. exact decls_pre_wf. Qed.
Print Assumptions C10round_decls_pre_wf.

Theorem C10round_decls_tok_inv : decls_tok_inv_stmt.
Proof. exact decls_tok_inv. Qed.
Print Assumptions C10round_decls_tok_inv.

Theorem C10round_rules_roundtrip : rules_roundtrip_stmt.
Proof. exact rules_roundtrip. Qed.
Print Assumptions C10round_rules_roundtrip.

Theorem C10round_rule_roundtrip : rule_roundtrip_stmt.
Proof. exact rule_roundtrip. Qed.
Print Assumptions C10round_rule_roundtrip.

Theorem C10round_parse_action_roundtrip : parse_action_roundtrip_stmt.
Proof. exact parse_action_roundtrip. Qed.
Print Assumptions C10round_parse_action_roundtrip.

Theorem C10round_action_span_roundtrip : action_span_roundtrip_stmt.
Proof. exact action_span_roundtrip. Qed.
Print Assumptions C10round_action_span_roundtrip.

Theorem C10round_roundtrip_hyps_satisfiable : roundtrip_hyps_satisfiable_stmt.
Proof. exact roundtrip_hyps_satisfiable. Qed.
Print Assumptions C10round_roundtrip_hyps_satisfiable.
