From GV Require Import Common.Outcome Base.Grammar LR.Automaton LR.Validator LR.Spec.
From GV Require Import C08.Model C08.Spec C08.Proofs C08.DetModel C08.DetSpec C08.DetProofs.

(* today's code (mirror: run_actions / run_actions_rec) *)
Theorem C08_action_log_is_postorder : action_log_is_postorder_stmt.
Proof. exact action_log_is_postorder. Qed.
Print Assumptions C08_action_log_is_postorder.

Theorem C08_actions_tree_equals_generic : actions_tree_equals_generic_stmt.
Proof. exact actions_tree_equals_generic. Qed.
Print Assumptions C08_actions_tree_equals_generic.

Theorem C08_actions_reject_equals_generic : actions_reject_equals_generic_stmt.
Proof. exact actions_reject_equals_generic. Qed.
Print Assumptions C08_actions_reject_equals_generic.

Theorem C08_replay_calls_wellformed : replay_calls_wellformed_stmt.
Proof. exact replay_calls_wellformed. Qed.
Print Assumptions C08_replay_calls_wellformed.

Theorem C08_replay_mirror_same_step : replay_mirror_same_step_stmt.
Proof. exact replay_mirror_same_step. Qed.
Print Assumptions C08_replay_mirror_same_step.

Theorem C08_span_is_yield_hull_refuted : span_is_yield_hull_refuted_stmt.
Proof. exact span_is_yield_hull_refuted. Qed.
Print Assumptions C08_span_is_yield_hull_refuted.

(* the repaired code (mirror: run_actions_fixed / run_actions_fixed_rec) *)
Theorem C08_fixed_action_log_is_postorder : fixed_action_log_is_postorder_stmt.
Proof. exact fixed_action_log_is_postorder. Qed.
Print Assumptions C08_fixed_action_log_is_postorder.

Theorem C08_fixed_actions_tree_equals_generic : fixed_actions_tree_equals_generic_stmt.
Proof. exact fixed_actions_tree_equals_generic. Qed.
Print Assumptions C08_fixed_actions_tree_equals_generic.

Theorem C08_fixed_replay_calls_wellformed : fixed_replay_calls_wellformed_stmt.
Proof. exact fixed_replay_calls_wellformed. Qed.
Print Assumptions C08_fixed_replay_calls_wellformed.

Theorem C08_span_is_yield_hull : span_is_yield_hull_stmt.
Proof. exact span_is_yield_hull. Qed.
Print Assumptions C08_span_is_yield_hull.

Theorem C08_span_is_yield_hull_weak : span_is_yield_hull_weak_stmt.
Proof. exact span_is_yield_hull_weak. Qed.
Print Assumptions C08_span_is_yield_hull_weak.

Theorem C08_replay_span_is_yield_hull : replay_span_is_yield_hull_stmt.
Proof. exact replay_span_is_yield_hull. Qed.
Print Assumptions C08_replay_span_is_yield_hull.

Theorem C08_fixed_changes_only_spans : fixed_changes_only_spans_stmt.
Proof. exact fixed_changes_only_spans. Qed.
Print Assumptions C08_fixed_changes_only_spans.

(* both modes with ONE recoverer function (input -> applied repair sequence): /repo ca69cd1 *)
Theorem C08_actions_equal_generic_same_recoverer : actions_equal_generic_same_recoverer_stmt.
Proof. exact actions_equal_generic_same_recoverer. Qed.
Print Assumptions C08_actions_equal_generic_same_recoverer.

Theorem C08_actions_tree_equals_generic_recovery : actions_tree_equals_generic_recovery_stmt.
Proof. exact actions_tree_equals_generic_recovery. Qed.
Print Assumptions C08_actions_tree_equals_generic_recovery.

Theorem C08_recoverer_run_is_oracle_run : recoverer_run_is_oracle_run_stmt.
Proof. exact recoverer_run_is_oracle_run. Qed.
Print Assumptions C08_recoverer_run_is_oracle_run.

(* … and the pinned defect: the recoverer answering differently for the two parses *)
Theorem C08_actions_differ_generic_if_recoverer_differs_refuted :
  actions_differ_generic_if_recoverer_differs_refuted_stmt.
Proof. exact actions_differ_generic_if_recoverer_differs_refuted. Qed.
Print Assumptions C08_actions_differ_generic_if_recoverer_differs_refuted.
