(* C11, round trip: parsing the text the formal printer gives for ANY well-formed abstract lexer
   specification under ANY well-formed layout yields exactly the specification: rules in order
   with name, name_span, unescaped regex, start-state ids, target; declared start states in order
   with id, kind, span.  Statements in C11/RoundSpec.v, printer in C11/Print.v. *)
From GV Require Import C11.RoundSpec C11.RoundRule C11.RoundDecl C11.Round.

Theorem C11_lex_roundtrip : lex_roundtrip_stmt.
Proof. exact lex_roundtrip. Qed.
Print Assumptions C11_lex_roundtrip.

Theorem C11_lex_roundtrip_default : lex_roundtrip_default_stmt.
Proof. exact lex_roundtrip_default. Qed.
Print Assumptions C11_lex_roundtrip_default.

Theorem C11_rule_line_roundtrip : rule_line_roundtrip_stmt.
Proof. exact rule_line_roundtrip. Qed.
Print Assumptions C11_rule_line_roundtrip.

Theorem C11_rule_line_span : rule_line_span_stmt.
Proof. exact rule_line_span. Qed.
Print Assumptions C11_rule_line_span.

Theorem C11_declarations_roundtrip : declarations_roundtrip_stmt.
Proof. exact declarations_roundtrip. Qed.
Print Assumptions C11_declarations_roundtrip.

Theorem C11_spec_of_faithful : spec_of_faithful_stmt.
Proof. exact spec_of_faithful. Qed.
Print Assumptions C11_spec_of_faithful.

Theorem C11_roundtrip_example : roundtrip_example_stmt.
Proof. exact roundtrip_example. Qed.
Print Assumptions C11_roundtrip_example.
