From GV Require Import Common.Outcome C20.Model C20.Spec C20.Proofs.

Theorem C20_guards_imply_no_wrap : guards_imply_no_wrap_stmt.
Proof. exact guards_imply_no_wrap. Qed.
Print Assumptions C20_guards_imply_no_wrap.

Theorem C20_width_independent : width_independent_stmt.
Proof. exact width_independent. Qed.
Print Assumptions C20_width_independent.

Theorem C20_fixed_grammar_guards_exact : fixed_grammar_guards_exact_stmt.
Proof. exact fixed_grammar_guards_exact. Qed.
Print Assumptions C20_fixed_grammar_guards_exact.

Theorem C20_no_wrap_g_spec : no_wrap_g_spec_stmt.
Proof. exact no_wrap_g_spec. Qed.
Print Assumptions C20_no_wrap_g_spec.

Theorem C20_fixed_refuses_more : fixed_refuses_more_stmt.
Proof. exact fixed_refuses_more. Qed.
Print Assumptions C20_fixed_refuses_more.

Theorem C20_orig_extra_accepts_wrap : orig_extra_accepts_wrap_stmt.
Proof. exact orig_extra_accepts_wrap. Qed.
Print Assumptions C20_orig_extra_accepts_wrap.

Theorem C20_guards_imply_no_wrap_refuted : guards_imply_no_wrap_refuted_stmt.
Proof. exact guards_imply_no_wrap_refuted. Qed.
Print Assumptions C20_guards_imply_no_wrap_refuted.

Theorem C20_width_independent_refuted : width_independent_refuted_stmt.
Proof. exact width_independent_refuted. Qed.
Print Assumptions C20_width_independent_refuted.

Theorem C20_orig_boundary_classes : orig_boundary_classes_stmt.
Proof. exact orig_boundary_classes. Qed.
Print Assumptions C20_orig_boundary_classes.

Theorem C20_state_guards_exact : state_guards_exact_stmt.
Proof. exact state_guards_exact. Qed.
Print Assumptions C20_state_guards_exact.

Theorem C20_state_guards_no_wrap : state_guards_no_wrap_stmt.
Proof. exact state_guards_no_wrap. Qed.
Print Assumptions C20_state_guards_no_wrap.

Theorem C20_state_guards_conservative : state_guards_conservative_stmt.
Proof. exact state_guards_conservative. Qed.
Print Assumptions C20_state_guards_conservative.

Theorem C20_cell_roundtrip : cell_roundtrip_stmt.
Proof. exact cell_roundtrip. Qed.
Print Assumptions C20_cell_roundtrip.

Theorem C20_lex_guard_exact : lex_guard_exact_stmt.
Proof. exact lex_guard_exact. Qed.
Print Assumptions C20_lex_guard_exact.

Theorem C20_lex_ids : lex_ids_stmt.
Proof. exact lex_ids. Qed.
Print Assumptions C20_lex_ids.

Theorem C20_lex_guard_no_wrap : lex_guard_no_wrap_stmt.
Proof. exact lex_guard_no_wrap. Qed.
Print Assumptions C20_lex_guard_no_wrap.
