From GV Require Import Common.Outcome C20.Model C20.Spec C20.Proofs.
From GV Require Import C20.PipelineSpec C20.PipelineProofs C20.PipelineExamples.

Theorem C20_guards_imply_no_wrap : guards_imply_no_wrap_stmt.
Proof. exact guards_imply_no_wrap. Qed.
Print Assumptions C20_guards_imply_no_wrap.

Theorem C20_width_independent : width_independent_stmt.
Proof. exact width_independent. Qed.
Print Assumptions C20_width_independent.

Theorem C20_fixed_grammar_guards_exact : fixed_grammar_guards_exact_stmt.
Proof. exact fixed_grammar_guards_exact. Qed.
Print Assumptions C20_fixed_grammar_guards_exact.

Theorem C20_no_wrap_g_spec : no_wrap_g_spec_stmt.
Proof. exact no_wrap_g_spec. Qed.
Print Assumptions C20_no_wrap_g_spec.

Theorem C20_fixed_refuses_more : fixed_refuses_more_stmt.
Proof. exact fixed_refuses_more. Qed.
Print Assumptions C20_fixed_refuses_more.

Theorem C20_orig_extra_accepts_wrap : orig_extra_accepts_wrap_stmt.
Proof. exact orig_extra_accepts_wrap. Qed.
Print Assumptions C20_orig_extra_accepts_wrap.

Theorem C20_guards_imply_no_wrap_refuted : guards_imply_no_wrap_refuted_stmt.
Proof. exact guards_imply_no_wrap_refuted. Qed.
Print Assumptions C20_guards_imply_no_wrap_refuted.

Theorem C20_width_independent_refuted : width_independent_refuted_stmt.
Proof. exact width_independent_refuted. Qed.
Print Assumptions C20_width_independent_refuted.

Theorem C20_orig_boundary_classes : orig_boundary_classes_stmt.
Proof. exact orig_boundary_classes. Qed.
Print Assumptions C20_orig_boundary_classes.

Theorem C20_state_guards_exact : state_guards_exact_stmt.
Proof. exact state_guards_exact. Qed.
Print Assumptions C20_state_guards_exact.

Theorem C20_state_guards_no_wrap : state_guards_no_wrap_stmt.
Proof. exact state_guards_no_wrap. Qed.
Print Assumptions C20_state_guards_no_wrap.

Theorem C20_state_guards_conservative : state_guards_conservative_stmt.
Proof. exact state_guards_conservative. Qed.
Print Assumptions C20_state_guards_conservative.

Theorem C20_state_count_refused_iff : state_count_refused_iff_stmt.
Proof. exact state_count_refused_iff. Qed.
Print Assumptions C20_state_count_refused_iff.

Theorem C20_state_count_boundary : state_count_boundary_stmt.
Proof. exact state_count_boundary. Qed.
Print Assumptions C20_state_count_boundary.

Theorem C20_cell_roundtrip : cell_roundtrip_stmt.
Proof. exact cell_roundtrip. Qed.
Print Assumptions C20_cell_roundtrip.

Theorem C20_lex_guard_exact : lex_guard_exact_stmt.
Proof. exact lex_guard_exact. Qed.
Print Assumptions C20_lex_guard_exact.

Theorem C20_lex_ids : lex_ids_stmt.
Proof. exact lex_ids. Qed.
Print Assumptions C20_lex_ids.

Theorem C20_lex_guard_no_wrap : lex_guard_no_wrap_stmt.
Proof. exact lex_guard_no_wrap. Qed.
Print Assumptions C20_lex_guard_no_wrap.

(* ---- width independence of the construction mirror and of parse results (PipelineSpec.v) ---- *)

Theorem C20_construction_bound_monotone : construction_bound_monotone_stmt.
Proof. exact construction_bound_monotone. Qed.
Print Assumptions C20_construction_bound_monotone.

Theorem C20_construction_bound_only_refuses : construction_bound_only_refuses_stmt.
Proof. exact construction_bound_only_refuses. Qed.
Print Assumptions C20_construction_bound_only_refuses.

Theorem C20_pager_bound_only_refuses : pager_bound_only_refuses_stmt.
Proof. exact pager_bound_only_refuses. Qed.
Print Assumptions C20_pager_bound_only_refuses.

Theorem C20_construction_narrow_same_or_refused : construction_narrow_same_or_refused_stmt.
Proof. exact construction_narrow_same_or_refused. Qed.
Print Assumptions C20_construction_narrow_same_or_refused.

Theorem C20_refusal_is_storage_check : refusal_is_storage_check_stmt.
Proof. exact refusal_is_storage_check. Qed.
Print Assumptions C20_refusal_is_storage_check.

Theorem C20_construction_state_count_refused : construction_state_count_refused_stmt.
Proof. exact construction_state_count_refused. Qed.
Print Assumptions C20_construction_state_count_refused.

Theorem C20_construction_width_total : construction_width_total_stmt.
Proof. exact construction_width_total. Qed.
Print Assumptions C20_construction_width_total.

Theorem C20_construction_sizes_fit : construction_sizes_fit_stmt.
Proof. exact construction_sizes_fit. Qed.
Print Assumptions C20_construction_sizes_fit.

Theorem C20_lr1_run_validated : lr1_run_validated_stmt.
Proof. exact lr1_run_validated. Qed.
Print Assumptions C20_lr1_run_validated.

Theorem C20_parse_results_conflict_free_agree : parse_results_conflict_free_agree_stmt.
Proof. exact parse_results_conflict_free_agree. Qed.
Print Assumptions C20_parse_results_conflict_free_agree.

Theorem C20_parse_results_width_independent : parse_results_width_independent_stmt.
Proof. exact parse_results_width_independent. Qed.
Print Assumptions C20_parse_results_width_independent.

Theorem C20_parse_results_width_independent_total : parse_results_width_independent_total_stmt.
Proof. exact parse_results_width_independent_total. Qed.
Print Assumptions C20_parse_results_width_independent_total.

Theorem C20_parse_results_always_sound : parse_results_always_sound_stmt.
Proof. exact parse_results_always_sound. Qed.
Print Assumptions C20_parse_results_always_sound.

Theorem C20_parse_results_same_oracles : parse_results_same_oracles_stmt.
Proof. exact parse_results_same_oracles. Qed.
Print Assumptions C20_parse_results_same_oracles.
