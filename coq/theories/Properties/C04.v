From GV Require Import Base.Grammar Base.Analyses LR.Automaton LR.Validator LR.Spec LR.Sound LR.Complete LR.Prefix.

Theorem C04_shifted_prefix_viable : shifted_prefix_viable_stmt.
Proof. exact shifted_prefix_viable. Qed.
Print Assumptions C04_shifted_prefix_viable.

Theorem C04_first_error_not_viable : first_error_not_viable_stmt.
Proof. exact first_error_not_viable. Qed.
Print Assumptions C04_first_error_not_viable.

Theorem C04_lr_never_panics : lr_never_panics_stmt.
Proof. exact lr_never_panics. Qed.
Print Assumptions C04_lr_never_panics.
