From GV Require Import Base.Grammar Base.Analyses LR.Automaton LR.Validator LR.Spec LR.Sound LR.Complete LR.Prefix.
From GV Require Repair.Spec Repair.Proofs.

From GV Require LR.TermSpec Properties.LRterm.
Theorem C04_shifted_prefix_viable : shifted_prefix_viable_stmt.
Proof. exact shifted_prefix_viable. Qed.
Print Assumptions C04_shifted_prefix_viable.

Theorem C04_first_error_not_viable : first_error_not_viable_stmt.
Proof. exact first_error_not_viable. Qed.
Print Assumptions C04_first_error_not_viable.

Theorem C04_lr_never_panics : lr_never_panics_stmt.
Proof. exact lr_never_panics. Qed.
Print Assumptions C04_lr_never_panics.

(* "With recovery on, the first reported error is at that same lexeme": the first
   error of the recovery driver (mirror of the error branch of Parser::lr, for any
   oracle of repair sequences) is exactly the plain interpreter's rejection, to which
   the two theorems above apply. *)
Theorem C04_recovery_first_error_is_plain_reject : Repair.Spec.first_error_is_plain_reject_stmt.
Proof. exact Repair.Proofs.first_error_is_plain_reject. Qed.
Print Assumptions C04_recovery_first_error_is_plain_reject.

(* in C04's domain (validated conflict-free table, productive grammar without derivation cycles) the parse always returns *)
Theorem C04_lr_terminates_validated : GV.LR.TermSpec.lr_terminates_validated_stmt.
Proof. exact GV.Properties.LRterm.LRterm_lr_terminates_validated. Qed.
Print Assumptions C04_lr_terminates_validated.


(* C04 for the table the construction builds (theories/C01/Pipeline*.v: mirror of pager_stategraph + gc
   composed with the mirror of StateTable::new; every grammar, every oracle of hash orders): the
   viable-prefix clause ALWAYS, conflicts resolved or not; the first-error clause when the construction
   reports no conflict and precedence settled no cell *)
From GV Require Import C01.Pipeline C01.PipelineSpec C01.PipelineMain.

Theorem C04_construction_shifted_prefix_viable : construction_shifted_prefix_viable_stmt.
Proof. exact construction_shifted_prefix_viable. Qed.
Print Assumptions C04_construction_shifted_prefix_viable.

Theorem C04_construction_first_error_not_viable : construction_first_error_not_viable_stmt.
Proof. exact construction_first_error_not_viable. Qed.
Print Assumptions C04_construction_first_error_not_viable.

Theorem C04_construction_never_panics : construction_never_panics_stmt.
Proof. exact construction_never_panics. Qed.
Print Assumptions C04_construction_never_panics.
