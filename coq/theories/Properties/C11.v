From GV Require Import Common.Outcome C11.Model C11.Spec C11.Proofs.

Theorem C11_unescape_spec : unescape_spec_stmt.
Proof. exact unescape_spec. Qed.
Print Assumptions C11_unescape_spec.

Theorem C11_unescape_fixed_spec : unescape_fixed_spec_stmt.
Proof. exact unescape_fixed_spec. Qed.
Print Assumptions C11_unescape_fixed_spec.

Theorem C11_unescape_total : unescape_total_stmt.
Proof. exact unescape_total. Qed.
Print Assumptions C11_unescape_total.

Theorem C11_unescape_dangling_refuted : unescape_dangling_refuted_stmt.
Proof. exact unescape_dangling_refuted. Qed.
Print Assumptions C11_unescape_dangling_refuted.

Theorem C11_trim_end_unescaped_spec : trim_end_unescaped_spec_stmt.
Proof. exact trim_end_unescaped_spec. Qed.
Print Assumptions C11_trim_end_unescaped_spec.

Theorem C11_trim_end_split : trim_end_split_stmt.
Proof. exact trim_end_split_lemma. Qed.
Print Assumptions C11_trim_end_split.

Theorem C11_lex_parse_total : lex_parse_total_stmt.
Proof. exact lex_parse_total. Qed.
Print Assumptions C11_lex_parse_total.

Theorem C11_lex_errs_nonempty : lex_errs_nonempty_stmt.
Proof. exact lex_errs_nonempty. Qed.
Print Assumptions C11_lex_errs_nonempty.

Theorem C11_spans_index_source : spans_index_source_stmt.
Proof. exact spans_index_source. Qed.
Print Assumptions C11_spans_index_source.

Theorem C11_spans_index_source_refuted : spans_index_source_refuted_stmt.
Proof. exact spans_index_source_refuted. Qed.
Print Assumptions C11_spans_index_source_refuted.

Theorem C11_target_span_refuted : target_span_refuted_stmt.
Proof. exact target_span_refuted. Qed.
Print Assumptions C11_target_span_refuted.
