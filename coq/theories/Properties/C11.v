From GV Require Import Common.Outcome C11.Model C11.Spec C11.Proofs.

From GV Require Import C11.RoundSpec C11.RoundRule C11.RoundDecl C11.Round.
Theorem C11_unescape_spec : unescape_spec_stmt.
Proof. exact unescape_spec. Qed.
Print Assumptions C11_unescape_spec.

Theorem C11_unescape_fixed_spec : unescape_fixed_spec_stmt.
Proof. exact unescape_fixed_spec. Qed.
Print Assumptions C11_unescape_fixed_spec.

Theorem C11_unescape_iw_spec : unescape_iw_spec_stmt.
Proof. exact unescape_iw_spec. Qed.
Print Assumptions C11_unescape_iw_spec.

Theorem C11_esc_table_spec : esc_table_spec_stmt.
Proof. exact esc_table_spec. Qed.
Print Assumptions C11_esc_table_spec.

Theorem C11_esc_table_orig_refuted : esc_table_orig_refuted_stmt.
Proof. exact esc_table_orig_refuted. Qed.
Print Assumptions C11_esc_table_orig_refuted.

Theorem C11_lex_esc_refuted : lex_esc_refuted_stmt.
Proof. exact lex_esc_refuted. Qed.
Print Assumptions C11_lex_esc_refuted.

Theorem C11_esc_table_digit_refuted : esc_table_digit_refuted_stmt.
Proof. exact esc_table_digit_refuted. Qed.
Print Assumptions C11_esc_table_digit_refuted.

Theorem C11_lex_esc_digit_refuted : lex_esc_digit_refuted_stmt.
Proof. exact lex_esc_digit_refuted. Qed.
Print Assumptions C11_lex_esc_digit_refuted.

Theorem C11_nonoctal_digit_plain : nonoctal_digit_plain_stmt.
Proof. exact nonoctal_digit_plain. Qed.
Print Assumptions C11_nonoctal_digit_plain.

Theorem C11_unescape_iw_refuted : unescape_iw_refuted_stmt.
Proof. exact unescape_iw_refuted. Qed.
Print Assumptions C11_unescape_iw_refuted.

Theorem C11_lex_iw_refuted : lex_iw_refuted_stmt.
Proof. exact lex_iw_refuted. Qed.
Print Assumptions C11_lex_iw_refuted.

Theorem C11_esc_image_cases : esc_image_cases_stmt.
Proof. exact esc_image_cases. Qed.
Print Assumptions C11_esc_image_cases.

Theorem C11_iw_off_irrelevant : iw_off_irrelevant_stmt.
Proof. exact iw_off_irrelevant. Qed.
Print Assumptions C11_iw_off_irrelevant.

Theorem C11_unescape_total : unescape_total_stmt.
Proof. exact unescape_total. Qed.
Print Assumptions C11_unescape_total.

Theorem C11_unescape_dangling_refuted : unescape_dangling_refuted_stmt.
Proof. exact unescape_dangling_refuted. Qed.
Print Assumptions C11_unescape_dangling_refuted.

Theorem C11_trim_end_unescaped_spec : trim_end_unescaped_spec_stmt.
Proof. exact trim_end_unescaped_spec. Qed.
Print Assumptions C11_trim_end_unescaped_spec.

Theorem C11_trim_end_split : trim_end_split_stmt.
Proof. exact trim_end_split_lemma. Qed.
Print Assumptions C11_trim_end_split.

Theorem C11_trim_end_keeps : trim_end_keeps_stmt.
Proof. exact trim_end_keeps. Qed.
Print Assumptions C11_trim_end_keeps.

Theorem C11_trim_orig_refuted : trim_orig_refuted_stmt.
Proof. exact trim_orig_refuted. Qed.
Print Assumptions C11_trim_orig_refuted.

Theorem C11_lex_trim_refuted : lex_trim_refuted_stmt.
Proof. exact lex_trim_refuted. Qed.
Print Assumptions C11_lex_trim_refuted.

Theorem C11_declared_names_spec : declared_names_spec_stmt.
Proof. exact declared_names_spec. Qed.
Print Assumptions C11_declared_names_spec.

Theorem C11_decl_blanks_refuted : decl_blanks_refuted_stmt.
Proof. exact decl_blanks_refuted. Qed.
Print Assumptions C11_decl_blanks_refuted.

Theorem C11_lex_parse_total : lex_parse_total_stmt.
Proof. exact lex_parse_total. Qed.
Print Assumptions C11_lex_parse_total.

Theorem C11_lex_errs_nonempty : lex_errs_nonempty_stmt.
Proof. exact lex_errs_nonempty. Qed.
Print Assumptions C11_lex_errs_nonempty.

Theorem C11_spans_index_source : spans_index_source_stmt.
Proof. exact spans_index_source. Qed.
Print Assumptions C11_spans_index_source.

Theorem C11_spans_index_source_refuted : spans_index_source_refuted_stmt.
Proof. exact spans_index_source_refuted. Qed.
Print Assumptions C11_spans_index_source_refuted.

Theorem C11_target_span_refuted : target_span_refuted_stmt.
Proof. exact target_span_refuted. Qed.
Print Assumptions C11_target_span_refuted.

(* the whole-file round-trip law for lexer specifications *)
(* C11, round trip: parsing the text the formal printer gives for ANY well-formed abstract lexer
   specification under ANY well-formed layout yields exactly the specification: rules in order
   with name, name_span, unescaped regex, start-state ids, target; declared start states in order
   with id, kind, span.  Statements in C11/RoundSpec.v, printer in C11/Print.v. *)

Theorem C11_lex_roundtrip : lex_roundtrip_stmt.
Proof. exact lex_roundtrip. Qed.
Print Assumptions C11_lex_roundtrip.

Theorem C11_lex_roundtrip_default : lex_roundtrip_default_stmt.
Proof. exact lex_roundtrip_default. Qed.
Print Assumptions C11_lex_roundtrip_default.

Theorem C11_rule_line_roundtrip : rule_line_roundtrip_stmt.
Proof. exact rule_line_roundtrip. Qed.
Print Assumptions C11_rule_line_roundtrip.

Theorem C11_rule_line_span : rule_line_span_stmt.
Proof. exact rule_line_span. Qed.
Print Assumptions C11_rule_line_span.

Theorem C11_declarations_roundtrip : declarations_roundtrip_stmt.
Proof. exact declarations_roundtrip. Qed.
Print Assumptions C11_declarations_roundtrip.

Theorem C11_spec_of_faithful : spec_of_faithful_stmt.
Proof. exact spec_of_faithful. Qed.
Print Assumptions C11_spec_of_faithful.

Theorem C11_roundtrip_example : roundtrip_example_stmt.
Proof. exact roundtrip_example. Qed.
Print Assumptions C11_roundtrip_example.
