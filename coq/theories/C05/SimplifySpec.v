(* C05 — statements about the tail of simplify_repairs: the list of repair sequences an error
   reports, and in particular its head (the sequence recover() applies), is a function of the
   input list for the repaired code; it was not for the pinned code. *)
From Coq Require Import List Arith NArith Bool Sorting.Sorted Sorting.Permutation.
From GV Require Import Repair.Semantics Repair.Search C06.Model C05.SimplifyModel.
Import ListNotations.

(* the comparison closure of sort_by / sort_unstable_by, read as a strict order and its ties *)
Definition key_lt (avoid : list N) (x y : list repair) : Prop := key_leb avoid y x = false.
Definition key_eq (avoid : list N) (x y : list repair) : Prop :=
  key_leb avoid x y = true /\ key_leb avoid y x = true.

(* x occurs (somewhere) before an occurrence of y *)
Inductive before {A : Type} : list A -> A -> A -> Prop :=
| before_here : forall x y l, In y l -> before (x :: l) x y
| before_skip : forall a x y l, before l x y -> before (a :: l) x y.

(* what a STABLE sort of d by the closure is, whatever the algorithm (Rust's sort_by is a merge
   sort; the executable mirror is an insertion sort): of two elements of the output the earlier
   one has the smaller key, or an equal key and the earlier place in d *)
Definition stable_order (avoid : list N) (d : list (list repair)) (x y : list repair) : Prop :=
  key_lt avoid x y \/ (key_eq avoid x y /\ before d x y).
Definition stable_sort_of (avoid : list N) (d o : list (list repair)) : Prop :=
  Permutation d o /\ StronglySorted (stable_order avoid d) o.

(* the repaired tail, declaratively: strip, insertion-ordered dedup, any stable sort *)
Definition simplify_fixed_out (avoid : list N) (l o : list (list repair)) : Prop :=
  stable_sort_of avoid (dedup_keep_first (map strip l)) o.

(* the pinned tail: `hs.drain()` is ANY enumeration of the set of stripped sequences and
   sort_unstable_by leaves ANY order that is sorted by the key *)
Definition simplify_orig_out (avoid : list N) (l o : list (list repair)) : Prop :=
  (forall s, In s o <-> In s (map strip l)) /\ NoDup o /\
  StronglySorted (fun a b => key_leb avoid a b = true) o.

(* the repaired code is deterministic: its specification (which leaves the sorting algorithm
   open) is met by the executable mirror and by no other list — the reported list and the
   applied sequence are a function of (avoid set, list of sequences found) *)
Definition simplify_deterministic_stmt : Prop :=
  forall avoid l,
    simplify_fixed_out avoid l (simplify_fixed avoid l) /\
    forall o, simplify_fixed_out avoid l o -> o = simplify_fixed avoid l.

(* ... and stays within what the pinned code allowed (the repair narrows, it does not change the contract) *)
Definition simplify_fixed_refines_orig_stmt : Prop :=
  forall avoid l, simplify_orig_out avoid l (simplify_fixed avoid l).

(* the pinned code is not: one input, two admissible outputs with different heads — different
   applied repairs, hence different values (`S: 'a' B 'c'; B: 'b' | 'd';` on `a c`: Insert b / Insert d) *)
Definition simplify_refuted_orig_stmt : Prop :=
  exists avoid l o1 o2,
    simplify_orig_out avoid l o1 /\ simplify_orig_out avoid l o2 /\ hd_error o1 <> hd_error o2.

(* x's first occurrence comes before y's first occurrence *)
Definition first_before (d : list (list repair)) (x y : list repair) : Prop :=
  exists l1 l2, d = l1 ++ x :: l2 /\ ~ In y l1 /\ In y l2 /\ x <> y.

(* "same-rank sequences keep the order in which they were found" (doc comment of rank_cnds) *)
Definition simplify_stable_stmt : Prop :=
  forall avoid l x y,
    key_eq avoid x y -> first_before (map strip l) x y ->
    before (simplify_fixed avoid l) x y /\ ~ before (simplify_fixed avoid l) y x.

(* the SET of reported sequences is the one of the C06 reference/mirror (`simplify`): every C06
   theorem about the reported set applies unchanged *)
Definition simplify_same_set_stmt : Prop :=
  forall avoid l,
    (forall s, In s (simplify_fixed avoid l) <-> In s (simplify avoid l)) /\
    NoDup (simplify_fixed avoid l) /\
    length (simplify_fixed avoid l) = length (simplify avoid l).
