(* C05 — the tail of the repaired `simplify_repairs` (lrpar/src/lib/cpctplus.rs, /repo ca69cd1):
   which of several equally ranked repair sequences comes first — the one `recover` APPLIES
   (apply_repairs(.., &rnk_rprs[0])) — is a function of the input.  Executable definitions only.

     strip trailing shifts                                     (as before, Repair/Search.v strip)
     let is: IndexSet<_> = all_rprs.drain(..).collect();       dedup_keep_first
     all_rprs.extend(is);
     all_rprs.sort_by(|x, y| (avoid_insert, len))              a STABLE sort: C06/Model.v isort

   The pinned code deduplicated through a randomly seeded std HashSet (`hs.drain()` enumerates
   the set in an order that differs from instance to instance) and used sort_unstable_by: its
   result is modelled as a RELATION in SimplifySpec.v (any enumeration, any sorted order). *)
From Coq Require Import List Arith NArith Bool.
From GV Require Import Repair.Semantics Repair.Search C06.Model.
Import ListNotations.

Definition seq_mem (x : list repair) (l : list (list repair)) : bool :=
  existsb (fun y => if seq_eq_dec x y then true else false) l.

(* IndexSet::from_iter / extend: `insert` keeps the element already present, a new element goes
   to the end; iteration is in insertion order.  [seen] = what the set holds so far. *)
Fixpoint dedup_from (seen : list (list repair)) (l : list (list repair)) : list (list repair) :=
  match l with
  | [] => []
  | x :: r => if seq_mem x seen then dedup_from seen r else x :: dedup_from (x :: seen) r
  end.
Definition dedup_keep_first (l : list (list repair)) : list (list repair) := dedup_from [] l.

(* the repaired simplify_repairs; its head is the sequence recover() applies *)
Definition simplify_fixed (avoid : list N) (l : list (list repair)) : list (list repair) :=
  isort avoid (dedup_keep_first (map strip l)).

Definition applied_fixed (avoid : list N) (l : list (list repair)) : option (list repair) :=
  hd_error (simplify_fixed avoid l).
