(* C05 — proofs of SimplifySpec.v *)
From Coq Require Import List Arith NArith Bool Lia Sorting.Sorted Sorting.Permutation.
From GV Require Import Repair.Semantics Repair.Search C06.Model C06.RefProofs
  C05.SimplifyModel C05.SimplifySpec.
Import ListNotations.

(* ---- before ------------------------------------------------------------------------- *)
Lemma before_In {A} (d : list A) x y : before d x y -> In x d /\ In y d.
Proof.
  induction 1 as [x y l H|a x y l H IH]; [split; [left; reflexivity|right; exact H]|].
  destruct IH; split; right; assumption.
Qed.

Lemma before_asym {A} (d : list A) x y : NoDup d -> before d x y -> before d y x -> False.
Proof.
  induction d as [|a d IH]; intros Hnd H1 H2; [inversion H1|].
  inversion Hnd as [|? ? Hna Hnd']; subst.
  inversion H1 as [? ? ? Hy|? ? ? ? H1']; subst; inversion H2 as [? ? ? Hx|? ? ? ? H2']; subst.
  - contradiction.
  - apply before_In in H2'. destruct H2'; contradiction.
  - apply before_In in H1'. destruct H1'; contradiction.
  - exact (IH Hnd' H1' H2').
Qed.

Lemma before_total {A} (d : list A) x y : In x d -> In y d -> x <> y -> before d x y \/ before d y x.
Proof.
  induction d as [|a d IH]; intros Hx Hy Hne; [destruct Hx|].
  destruct Hx as [->|Hx]; destruct Hy as [->|Hy].
  - congruence.
  - left; constructor; exact Hy.
  - right; constructor; exact Hx.
  - destruct (IH Hx Hy Hne); [left|right]; constructor; assumption.
Qed.

Lemma sorted_before {A} (R : A -> A -> Prop) (o : list A) x y :
  StronglySorted R o -> before o x y -> R x y.
Proof.
  intros Hs Hb; induction Hb as [x y l Hy|a x y l Hb IH].
  - apply StronglySorted_inv in Hs. destruct Hs as (_ & Hf). rewrite Forall_forall in Hf. apply Hf; exact Hy.
  - apply StronglySorted_inv in Hs. destruct Hs as (Hs & _). exact (IH Hs).
Qed.

Lemma sorted_impl {A} (R S : A -> A -> Prop) (o : list A) :
  (forall a b, R a b -> S a b) -> StronglySorted R o -> StronglySorted S o.
Proof.
  intros HRS; induction 1 as [|a o Hs IH Hf]; constructor; [exact IH|].
  eapply Forall_impl; [|exact Hf]. intros b; apply HRS.
Qed.

(* two sorted arrangements of the same elements under an asymmetric order are equal *)
Lemma sorted_perm_unique {A} (R : A -> A -> Prop) :
  (forall a b, R a b -> R b a -> False) ->
  forall o1 o2 : list A, Permutation o1 o2 -> StronglySorted R o1 -> StronglySorted R o2 -> o1 = o2.
Proof.
  intros Hasym; induction o1 as [|a o1 IH]; intros o2 Hp H1 H2.
  - apply Permutation_nil in Hp. symmetry; exact Hp.
  - destruct o2 as [|b o2]; [apply Permutation_sym, Permutation_nil in Hp; discriminate|].
    assert (Eab : a = b).
    { apply StronglySorted_inv in H1. destruct H1 as (_ & F1).
      apply StronglySorted_inv in H2. destruct H2 as (_ & F2).
      rewrite Forall_forall in F1, F2.
      assert (Ha : In a (b :: o2)) by (eapply Permutation_in; [exact Hp|left; reflexivity]).
      assert (Hb : In b (a :: o1)) by (eapply Permutation_in; [apply Permutation_sym; exact Hp|left; reflexivity]).
      destruct Ha as [Ha|Ha]; [symmetry; exact Ha|]. destruct Hb as [Hb|Hb]; [exact Hb|].
      exfalso. exact (Hasym a b (F1 b Hb) (F2 a Ha)). }
    subst b. f_equal. apply IH.
    + eapply Permutation_cons_inv; exact Hp.
    + apply StronglySorted_inv in H1; tauto.
    + apply StronglySorted_inv in H2; tauto.
Qed.

(* ---- the key --------------------------------------------------------------------------- *)
Lemma stable_order_leb avoid d x y : stable_order avoid d x y -> key_leb avoid x y = true.
Proof.
  intros [H|((H & _) & _)]; [|exact H]. apply key_leb_total. exact H.
Qed.

Lemma stable_order_asym avoid d : NoDup d -> forall x y, stable_order avoid d x y -> stable_order avoid d y x -> False.
Proof.
  intros Hnd x y [H1|((A1 & B1) & C1)] [H2|((A2 & B2) & C2)]; unfold key_lt in *.
  - apply key_leb_total in H1. congruence.
  - congruence.
  - congruence.
  - exact (before_asym d x y Hnd C1 C2).
Qed.

(* ---- dedup_keep_first -------------------------------------------------------------------- *)
Lemma seq_mem_In x l : seq_mem x l = true <-> In x l.
Proof.
  unfold seq_mem. rewrite existsb_exists. split.
  - intros (y & Hy & E). destruct (seq_eq_dec x y); [subst; exact Hy|discriminate].
  - intros H. exists x. split; [exact H|]. destruct (seq_eq_dec x x); [reflexivity|congruence].
Qed.

Lemma In_dedup_from : forall l seen y, In y (dedup_from seen l) <-> In y l /\ ~ In y seen.
Proof.
  induction l as [|x r IH]; intros seen y; cbn [dedup_from]; [cbn; tauto|].
  destruct (seq_mem x seen) eqn:E.
  - apply seq_mem_In in E. rewrite IH. cbn [In]. split; [tauto|].
    intros ([->|H] & Hn); [contradiction|tauto].
  - assert (Hx : ~ In x seen) by (intros H; apply seq_mem_In in H; congruence).
    cbn [In]. rewrite IH. cbn [In]. split.
    + intros [->|(H & Hn)]; [tauto|]. split; [tauto|]. intros H'; apply Hn; right; exact H'.
    + intros ([->|H] & Hn); [left; reflexivity|].
      destruct (seq_eq_dec x y) as [->|Hne]; [left; reflexivity|]. right. split; [exact H|].
      intros [E'|H']; [congruence|contradiction].
Qed.

Lemma NoDup_dedup_from : forall l seen, NoDup (dedup_from seen l).
Proof.
  induction l as [|x r IH]; intros seen; cbn [dedup_from]; [constructor|].
  destruct (seq_mem x seen); [apply IH|]. constructor; [|apply IH].
  rewrite In_dedup_from. intros (_ & Hn). apply Hn. left; reflexivity.
Qed.

Lemma In_dedup_keep_first l y : In y (dedup_keep_first l) <-> In y l.
Proof. unfold dedup_keep_first. rewrite In_dedup_from. cbn; tauto. Qed.

Lemma dedup_from_before x y l2 : x <> y -> In y l2 ->
  forall l1 seen, ~ In x seen -> ~ In y seen -> ~ In y l1 ->
    before (dedup_from seen (l1 ++ x :: l2)) x y.
Proof.
  intros Hne Hy; induction l1 as [|a l1 IH]; intros seen Hxs Hys Hyl; cbn [app dedup_from].
  - destruct (seq_mem x seen) eqn:E; [apply seq_mem_In in E; contradiction|].
    constructor. apply In_dedup_from. split; [exact Hy|]. intros [E'|H']; [congruence|contradiction].
  - assert (Hay : a <> y) by (intros ->; apply Hyl; left; reflexivity).
    assert (Hyl' : ~ In y l1) by (intros H; apply Hyl; right; exact H).
    destruct (seq_mem a seen) eqn:E; [apply IH; assumption|].
    destruct (seq_eq_dec a x) as [->|Hax].
    + constructor. apply In_dedup_from. split.
      * apply in_or_app. right. right. exact Hy.
      * intros [E'|H']; [congruence|contradiction].
    + apply before_skip. apply IH; [| |exact Hyl'].
      * intros [E'|H']; [congruence|contradiction].
      * intros [E'|H']; [congruence|contradiction].
Qed.

Lemma dedup_keep_first_before d x y : first_before d x y -> before (dedup_keep_first d) x y.
Proof.
  intros (l1 & l2 & -> & Hn & Hy & Hne). unfold dedup_keep_first.
  apply dedup_from_before; auto.
Qed.

(* ---- the insertion sort is a stable sort --------------------------------------------------- *)
Lemma insert_sorted_stable avoid x l : forall o,
  (forall z, In z o -> In z l) ->
  StronglySorted (stable_order avoid (x :: l)) o ->
  StronglySorted (stable_order avoid (x :: l)) (insert_sorted avoid x o).
Proof.
  induction o as [|y o IH]; intros Hin Hs; cbn [insert_sorted].
  - constructor; constructor.
  - destruct (key_leb avoid x y) eqn:E.
    + constructor; [exact Hs|]. rewrite Forall_forall. intros z Hz.
      assert (Hxz : key_leb avoid x z = true).
      { destruct Hz as [<-|Hz]; [exact E|]. eapply key_leb_trans; [exact E|].
        apply StronglySorted_inv in Hs. destruct Hs as (_ & Hf). rewrite Forall_forall in Hf.
        eapply stable_order_leb. apply Hf. exact Hz. }
      destruct (key_leb avoid z x) eqn:Ezx.
      * right. split; [split; assumption|]. constructor. apply Hin. exact Hz.
      * left. exact Ezx.
    + apply StronglySorted_inv in Hs. destruct Hs as (Hs & Hf). constructor.
      * apply IH; [|exact Hs]. intros z Hz; apply Hin; right; exact Hz.
      * rewrite Forall_forall in *. intros z Hz.
        apply (Permutation_in _ (insert_sorted_perm avoid x o)) in Hz. destruct Hz as [<-|Hz].
        -- left. exact E.
        -- apply Hf. exact Hz.
Qed.

Lemma isort_stable avoid : forall d, NoDup d -> StronglySorted (stable_order avoid d) (isort avoid d).
Proof.
  induction d as [|x d IH]; intros Hnd; cbn [isort]; [constructor|].
  inversion Hnd as [|? ? Hx Hnd']; subst.
  apply insert_sorted_stable.
  - intros z Hz. eapply Permutation_in; [apply isort_perm|exact Hz].
  - eapply sorted_impl; [|apply IH; exact Hnd'].
    intros a b [H|(H & Hb)]; [left; exact H|right; split; [exact H|apply before_skip; exact Hb]].
Qed.

Lemma isort_stable_sort_of avoid d : NoDup d -> stable_sort_of avoid d (isort avoid d).
Proof.
  intros Hnd. split; [apply Permutation_sym, isort_perm|apply isort_stable; exact Hnd].
Qed.

Lemma stable_sort_unique avoid d o1 o2 : NoDup d ->
  stable_sort_of avoid d o1 -> stable_sort_of avoid d o2 -> o1 = o2.
Proof.
  intros Hnd (P1 & S1) (P2 & S2).
  eapply sorted_perm_unique; [apply stable_order_asym; exact Hnd| |exact S1|exact S2].
  eapply Permutation_trans; [apply Permutation_sym; exact P1|exact P2].
Qed.

(* ---- the statements ---------------------------------------------------------------------- *)
Lemma simplify_deterministic : simplify_deterministic_stmt.
Proof.
  intros avoid l. unfold simplify_fixed_out, simplify_fixed.
  assert (Hnd : NoDup (dedup_keep_first (map strip l))) by apply NoDup_dedup_from.
  split; [apply isort_stable_sort_of; exact Hnd|].
  intros o Ho. eapply stable_sort_unique; [exact Hnd|exact Ho|apply isort_stable_sort_of; exact Hnd].
Qed.

Lemma simplify_fixed_refines_orig : simplify_fixed_refines_orig_stmt.
Proof.
  intros avoid l. unfold simplify_orig_out, simplify_fixed. split; [|split].
  - intros s. split; intros H.
    + apply (proj1 (In_dedup_keep_first _ _)). eapply Permutation_in; [apply isort_perm|exact H].
    + eapply Permutation_in; [apply Permutation_sym, isort_perm|]. apply (proj2 (In_dedup_keep_first _ _)). exact H.
  - eapply Permutation_NoDup; [apply Permutation_sym, isort_perm|apply NoDup_dedup_from].
  - apply isort_sorted.
Qed.

Lemma simplify_refuted_orig : simplify_refuted_orig_stmt.
Proof.
  exists [], [[Ins 2%N]; [Ins 3%N]], [[Ins 2%N]; [Ins 3%N]], [[Ins 3%N]; [Ins 2%N]].
  split; [|split]; [| |cbn; congruence].
  - split; [|split].
    + intros s; cbn; tauto.
    + repeat constructor; cbn; intuition congruence.
    + repeat constructor.
  - split; [|split].
    + intros s; cbn; tauto.
    + repeat constructor; cbn; intuition congruence.
    + repeat constructor.
Qed.

Lemma simplify_stable : simplify_stable_stmt.
Proof.
  intros avoid l x y Heq Hfb.
  destruct (simplify_deterministic avoid l) as ((Hp & Hs) & _).
  set (d := dedup_keep_first (map strip l)) in *.
  assert (Hnd : NoDup d) by apply NoDup_dedup_from.
  assert (Hb : before d x y) by (apply dedup_keep_first_before; exact Hfb).
  assert (Hno : ~ before (simplify_fixed avoid l) y x).
  { intros Hyx. apply (sorted_before _ _ _ _ Hs) in Hyx. destruct Hyx as [H|(_ & H)].
    - unfold key_lt in H. destruct Heq; congruence.
    - exact (before_asym d x y Hnd Hb H). }
  split; [|exact Hno].
  destruct (before_In _ _ _ Hb) as (Hx & Hy).
  destruct Hfb as (_ & _ & _ & _ & _ & Hne).
  destruct (before_total (simplify_fixed avoid l) x y) as [H|H]; auto.
  - eapply Permutation_in; [exact Hp|exact Hx].
  - eapply Permutation_in; [exact Hp|exact Hy].
  - contradiction.
Qed.

Lemma simplify_same_set : simplify_same_set_stmt.
Proof.
  intros avoid l.
  assert (Hset : forall s, In s (simplify_fixed avoid l) <-> In s (simplify avoid l)).
  { intros s. rewrite simplify_In. unfold simplify_fixed. split.
    - intros H. apply (Permutation_in _ (isort_perm avoid _)) in H. apply (proj1 (In_dedup_keep_first _ _)) in H.
      apply in_map_iff in H. destruct H as (s' & <- & H). exists s'; split; [exact H|reflexivity].
    - intros (s' & H & ->). apply (Permutation_in _ (Permutation_sym (isort_perm avoid _))).
      apply (proj2 (In_dedup_keep_first _ _)). apply in_map. exact H. }
  assert (Hnd : NoDup (simplify_fixed avoid l)).
  { unfold simplify_fixed. eapply Permutation_NoDup; [apply Permutation_sym, isort_perm|apply NoDup_dedup_from]. }
  split; [exact Hset|split; [exact Hnd|]].
  apply Permutation_length. apply NoDup_Permutation; [exact Hnd| |exact Hset].
  unfold simplify. eapply Permutation_NoDup; [apply Permutation_sym, isort_perm|apply NoDup_nodup].
Qed.

(* ---- witnesses: the hypotheses are satisfiable, the mirror computes what the code does -------- *)
(* `S: 'a' B 'c'; B: 'b' | 'd' | 'e' | 'f';` on `a c`: four single inserts found in token order; a
   duplicate and trailing shifts; an %avoid_insert token goes last whatever its length *)
Example simplify_fixed_example :
  simplify_fixed [4%N] [[Ins 4%N]; [Ins 2%N; Shf; Shf]; [Ins 3%N]; [Ins 2%N]; [Del; Ins 5%N]; [Ins 5%N]]
  = [[Ins 2%N]; [Ins 3%N]; [Ins 5%N]; [Del; Ins 5%N]; [Ins 4%N]].
Proof. vm_compute. reflexivity. Qed.

Example simplify_stable_hyps :
  key_eq [] [Ins 2%N] [Ins 3%N] /\ first_before (map strip [[Ins 2%N; Shf]; [Ins 3%N]; [Ins 2%N]]) [Ins 2%N] [Ins 3%N].
Proof.
  split; [split; reflexivity|]. exists [], [[Ins 3%N]; [Ins 2%N]]. cbn.
  repeat split; [tauto|left; reflexivity|congruence].
Qed.

(* the two orders the pinned code could produce are told apart by the repaired one *)
Example simplify_fixed_order_sensitive :
  simplify_fixed [] [[Ins 2%N]; [Ins 3%N]] <> simplify_fixed [] [[Ins 3%N]; [Ins 2%N]].
Proof. vm_compute. congruence. Qed.
