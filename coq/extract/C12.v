From Coq Require Extraction ExtrOcamlBasic.
From GV Require Import Common.Outcome C12.HeaderModel C12.Conv.
Extraction Language OCaml.
Extraction "model.ml" parse_header_gen fuel_for header_conversions.
