From Coq Require Extraction ExtrOcamlBasic.
From GV Require Import Base.Grammar Base.Analyses LR.Automaton LR.Validator LR.Canon C03.Model C03.Spec C03.Yacc3.
Extraction Language OCaml.
Extraction "model.ml" mkGrammar mkDump of_dump run lhs rhs
  mkPrec cell_spec sr_spec red_cands acc_cand winner accept_reduce_b has_candidate
  table_mirror tb_cell wf_state_b prec_consistent_b precs_of
  token_prec_spec token_prec_mirror decl_dups prod_prec_mirror build_ok_spec build_ok_mirror decide canon_lr1
  cell_yacc three_way_b yacc_agrees_b cell_bison yres_same_b sr_cell_spec.
