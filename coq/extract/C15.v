From Coq Require Extraction ExtrOcamlBasic.
From GV Require Import Common.Outcome C15.Model C15.EppModel C15.Run.
Extraction Language OCaml.
Extraction "model.ml" run_eco run_eco_fixed run_avoid run_gc run_row run_epp orders orun oinit all_done round_robin glue_n_of_nat.
