From Coq Require Extraction ExtrOcamlBasic.
From GV Require Import Common.Outcome Base.Grammar Base.Analyses LR.Automaton C17.MirrorModel.
Extraction Language OCaml.
Extraction "model.ml" mkGrammar mkDump wf_grammar firsts_mirror follows_mirror firsts_fuel follows_fuel ff_mirror.
