From Coq Require Extraction ExtrOcamlBasic.
From GV Require Import Base.Grammar Base.Analyses LR.Automaton LR.Validator C03.Model C16.Model C16.ExactSpec.
Extraction Language OCaml.
Extraction "model.ml" mkGrammar mkDump of_dump run lhs rhs
  mkPrec precs_of cell_spec has_candidate table_mirror wf_state_b prec_consistent_b
  views_of_dump coherent_b row_b actions_b shifts_b targets_b core_reduces_b reduce_only_b reduce_only_ref
  all_reachable_b closure_b first_ref views_row reach_states lr1_closure triples_of
  wf_grammar vS1 vS5 dump_edges_in_syms_b core_la_in_toks_b.
