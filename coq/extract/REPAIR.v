From Coq Require Extraction ExtrOcamlBasic.
From GV Require Import Base.Grammar LR.Automaton LR.Validator Repair.Semantics Repair.Spec.
Extraction Language OCaml.
Extraction "model.ml" mkGrammar mkDump of_dump wf_grammar validS single_candidate run lhs
  valid_repair apply_seq parse_ahead run_recover edit repaired erase vleaves advance dump_no_shift_eof.
