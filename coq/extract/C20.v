From Coq Require Extraction ExtrOcamlBasic.
From GV Require Import Common.Outcome C20.Model C20.Run.
Extraction Language OCaml.
Extraction "model.ml" run_case expand_groups.
