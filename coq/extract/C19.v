From Coq Require Extraction ExtrOcamlBasic.
From GV Require Import Common.Outcome C19.Model C19.Run.
Extraction Language OCaml.
Extraction "model.ml" run_case.
