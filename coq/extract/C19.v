From Coq Require Extraction ExtrOcamlBasic.
From GV Require Import Common.Outcome C19.Model C19.Run C19.Diag C19.FedModel C19.FedRun.
Extraction Language OCaml.
Extraction "model.ml" run_case diag_case spanned_case on_line_case diag_spans_case lexer_case
  row_indent_cols row_under_cols line_row_indent_cols seg_cols corpus_width.
