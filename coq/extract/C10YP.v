From Coq Require Extraction ExtrOcamlBasic.
From GV Require Import Common.Outcome C10.YpModel.
Extraction Language OCaml.
Extraction "model.ml" run_case.
