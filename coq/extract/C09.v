From Coq Require Extraction ExtrOcamlBasic.
From Coq Require Import NArith.
From GV Require Import Common.Outcome C09.Model C09.Run.
Extraction Language OCaml.
(* N.of_nat only so that the types [positive] and [n], which the shared glue
   ocaml/common/conv.ml mentions, exist in the extracted module *)
Extraction "model.ml" run_lex run_ids N.of_nat.
