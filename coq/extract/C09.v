From Coq Require Extraction ExtrOcamlBasic.
From GV Require Import Common.Outcome C09.Model C09.Run.
Extraction Language OCaml.
Extraction "model.ml" run_lex run_ids.
