From Coq Require Extraction ExtrOcamlBasic.
From GV Require Import Common.Outcome C13.Model C13.Run.
Extraction Language OCaml.
Extraction "model.ml" run_subst run_unpack run_arg_index run_regen run_fill run_quoted.
