From Coq Require Extraction ExtrOcamlBasic.
From GV Require Import C14.Model C14.Schema_gen C14.Run.
Extraction Language OCaml.
Extraction "model.ml" run_case wf_case run_limited elem_sizes.
