From Coq Require Extraction ExtrOcamlBasic.
From GV Require Import Common.Outcome C11.Model C11.Spec C11.Print C11.RoundSpec.
Extraction Language OCaml.
(* the printer and the denotation of the round-trip theorem, its hypotheses (boolean), and the
   mirror of the parser in its repaired variant (so that the driver can evaluate the statement) *)
Extraction "model.ml" print_spec spec_of wf_aspec wf_layout lex_from_str repaired.
