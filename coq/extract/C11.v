From Coq Require Extraction ExtrOcamlBasic.
From GV Require Import Common.Outcome C11.Model.
Extraction Language OCaml.
Extraction "model.ml" lex_from_str unescape_sel trim_end_unescaped_gen trim_pred.
