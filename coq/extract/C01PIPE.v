From Coq Require Extraction ExtrOcamlBasic.
From GV Require Import Common.Outcome Base.Grammar Base.Analyses LR.Automaton LR.Validator
  LR.CloseMirror C02.Model C02.LoopModel C02.InducedModel C03.Model C01.Pipeline.
Extraction Language OCaml.
Extraction "model.ml" mkGrammar mkDump of_dump wf_grammar first_ref mkPrec precs_of
  from_yacc_mirror built_automaton reports_no_conflict validS validC validE single_candidate.
