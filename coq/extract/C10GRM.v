From Coq Require Extraction ExtrOcamlBasic.
From GV Require Import Common.Outcome C10.GrmModel.
Extraction Language OCaml.
Extraction "model.ml" build_grammar wf_astb
  rules_len prods_len tokens_len iter_rules iter_pidxs iter_tidxs
  prod_at prod_len prod_to_rule prod_precedence prod_span start_prod rule_to_prods
  rule_name_str rule_name_span implicit_rule rule_idx start_rule_idx eof_token_idx
  token_name token_precedence token_epp token_span action action_span actiontype
  token_idx tokens_map avoid_insert
  g_expect g_expectrr g_parse_param g_parse_generics g_programs.
