From Coq Require Extraction ExtrOcamlBasic.
From GV Require Import Common.Outcome C10.YpModel C10.YpPrint.
Extraction Language OCaml.
(* [yerr] only for the type of the (always empty) error list the transcript printer takes *)
Extraction "model.ml" print ast_of warnings_of yerr.
