From Coq Require Extraction ExtrOcamlBasic.
From GV Require Import Common.Outcome Base.Grammar Base.Analyses LR.Automaton C17.Model C17.CostMirror C17.QueryModel.
Extraction Language OCaml.
Extraction "model.ml" mkGrammar mkDump wf_grammar nullable_ref first_ref reach_ref
  follow_strict_ref follow_textbook_ref tcost certified_costs search cert_ok rule_min_costs_run
  rule_min_costs_fx rule_max_costs_fx min_sentences_m.
