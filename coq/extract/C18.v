From Coq Require Extraction ExtrOcamlBasic.
From Coq Require Import NArith.
From GV Require Import Common.Outcome C18.Model.
Extraction Language OCaml.
(* N.succ only so that the shared glue (ocaml/common/conv.ml) finds the types positive / n *)
Extraction "model.ml" trace init N.succ.
