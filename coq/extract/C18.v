From Coq Require Extraction ExtrOcamlBasic.
From Coq Require Import NArith.
From GV Require Import Common.Outcome C18.Model C18.InspModel C18.TokModel.
Extraction Language OCaml.
(* N.succ only so that the shared glue (ocaml/common/conv.ml) finds the types positive / n *)
(* trace_i with a verdict that accepts everything is trace of C18/Model.v (C18_run_i_is_run) *)
(* trace_m: the manual-lexer flow (parser build ; token map build), C18/TokModel.v *)
Extraction "model.ml" trace_i init_i trace_m init_m N.succ.
