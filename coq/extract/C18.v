From Coq Require Extraction ExtrOcamlBasic.
From Coq Require Import NArith.
From GV Require Import Common.Outcome C18.Model C18.InspModel.
Extraction Language OCaml.
(* N.succ only so that the shared glue (ocaml/common/conv.ml) finds the types positive / n *)
(* trace_i with a verdict that accepts everything is trace of C18/Model.v (C18_run_i_is_run) *)
Extraction "model.ml" trace_i init_i N.succ.
