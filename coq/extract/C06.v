From Coq Require Extraction ExtrOcamlBasic.
From GV Require Import Base.Grammar LR.Automaton LR.Validator Repair.Semantics Repair.Spec Repair.Search
  C06.Model C06.Mirror.
Extraction Language OCaml.
Extraction "model.ml" mkGrammar mkDump of_dump wf_grammar validS single_candidate lhs dump_no_shift_eof
  run_recover valid_repair srun scost far shift_returns strip
  ranked_successes simplify all_min_repairs search_mirror
  moves allowed mcost sstep done_at next_k is_del dijkstra.
