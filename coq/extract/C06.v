From Coq Require Extraction ExtrOcamlBasic.
From GV Require Import Base.Grammar LR.Automaton LR.Validator Repair.Semantics Repair.Spec Repair.Search
  C06.Model C06.Mirror C06.CompleteValidatedRank.
Extraction Language OCaml.
Extraction "model.ml" mkGrammar mkDump of_dump wf_grammar validS validC validE single_candidate lhs dump_no_shift_eof
  run_recover valid_repair srun scost far far_orig shift_returns strip
  ranked_successes ranked_successes_orig simplify all_min_repairs search_mirror search_mirror_orig
  moves allowed mcost sstep done_at next_k is_del dijkstra rank_fuel_ok.
