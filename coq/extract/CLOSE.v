From Coq Require Extraction ExtrOcamlBasic.
From GV Require Import Common.Outcome Base.Grammar Base.Analyses LR.Automaton LR.CloseMirror.
Extraction Language OCaml.
Extraction "model.ml" mkGrammar mkDump wf_grammar first_ref
  close_mirror close_fuel goto_mirror items_ok.
