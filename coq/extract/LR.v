From Coq Require Extraction ExtrOcamlBasic.
From GV Require Import Base.Grammar Base.Analyses LR.Automaton LR.Validator LR.Canon.
Extraction Language OCaml.
Extraction "model.ml" mkGrammar mkDump of_dump wf_grammar validS validC validE single_candidate
  vS0 vS1 vS2 vS3 vS4 vS5 vC1 vC2 vC3 vC4 vE1 vE2 first_ref run lhs
  canon_lr1 nullable_ref reach_ref follow_strict_ref follow_textbook_ref.
