From Coq Require Extraction ExtrOcamlBasic.
From GV Require Import Common.Outcome Base.Grammar Base.Analyses LR.Automaton LR.Validator LR.Canon
  LR.CloseMirror C02.Model C02.Lr1Model C02.LoopModel C02.InducedModel C02.TextbookModel.
Extraction Language OCaml.
Extraction "model.ml" mkGrammar mkDump of_dump wf_grammar canon_lr1 lr1_check
  weakly_compatible_mirror weakly_merge_mirror first_ref pager_mirror induced validS validC validE single_candidate
  canon_tb lr1_textbook_check run lhs.
