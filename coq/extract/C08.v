From Coq Require Extraction ExtrOcamlBasic.
From GV Require Import Common.Outcome Base.Grammar LR.Automaton LR.Validator C08.Model C08.DetModel.
Extraction Language OCaml.
Extraction "model.ml" mkGrammar mkDump of_dump wf_grammar validS lhs
  run_actions_rec run_actions_fixed_rec run_actions_fixed_f run_generic_fixed_f.
