#!/bin/bash
# regenerate _CoqProject from the .v files on disk (theories/ only) and the Makefile
cd "$(dirname "$0")"
{
  echo "-Q theories GV"
  echo "-arg -w -arg -deprecated-hint-without-locality,-deprecated-instance-without-locality,-notation-overridden"
  find theories -name '*.v' | LC_ALL=C sort
} > _CoqProject.new
if ! cmp -s _CoqProject.new _CoqProject; then mv _CoqProject.new _CoqProject; else rm _CoqProject.new; fi
if [ ! -f Makefile ] || [ _CoqProject -nt Makefile ]; then coq_makefile -f _CoqProject -o Makefile >/dev/null; fi
