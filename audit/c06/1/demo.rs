// C06 audit demo 1: rank_cnds compares a distance that is capped at
// in_laidx + TRY_PARSE_AT_MOST for some candidates with an uncapped one for candidates whose
// repair sequence itself already ends beyond that cap. A minimum-cost repair that lets parsing
// continue to the very end of the input is then dropped in favour of one that fails 4 lexemes
// after its last repair.
//
// Clause: "every minimum-cost repair that lets parsing continue as far as the best of them is
// reported".
use std::{error::Error, fmt};

use cfgrammar::{
    Span, TIdx,
    yacc::{YaccGrammar, YaccKind, YaccOriginalActionKind},
};
use lrpar::{
    LexError, LexParseError, Lexeme, Lexer, LexerTypes, NonStreamingLexer, ParseRepair,
    RTParserBuilder,
};
use lrtable::{Minimiser, from_yacc};

#[derive(Debug, Clone)]
struct LT();
impl LexerTypes for LT {
    type LexemeT = Lx;
    type StorageT = u16;
    type LexErrorT = LE;
}
#[derive(Clone, Copy, Debug, Eq, Hash, PartialEq)]
struct Lx {
    start: usize,
    len: usize,
    faulty: bool,
    tok_id: u16,
}
impl Lexeme<u16> for Lx {
    fn new(tok_id: u16, start: usize, len: usize) -> Self {
        Lx { start, len, faulty: false, tok_id }
    }
    fn new_faulty(tok_id: u16, start: usize, len: usize) -> Self {
        Lx { start, len, faulty: true, tok_id }
    }
    fn tok_id(&self) -> u16 {
        self.tok_id
    }
    fn span(&self) -> Span {
        Span::new(self.start, self.start + self.len)
    }
    fn faulty(&self) -> bool {
        self.faulty
    }
}
impl fmt::Display for Lx {
    fn fmt(&self, f: &mut fmt::Formatter) -> fmt::Result {
        write!(f, "Lx[{}..{}]", self.start, self.start + self.len)
    }
}
#[derive(Debug)]
struct LE {}
impl LexError for LE {
    fn span(&self) -> Span {
        unreachable!()
    }
}
impl Error for LE {}
impl fmt::Display for LE {
    fn fmt(&self, _: &mut fmt::Formatter) -> fmt::Result {
        unreachable!()
    }
}
/// One lexeme per input character; the character is the token's name.
struct CharLexer<'i> {
    s: &'i str,
    lexemes: Vec<Lx>,
}
impl Lexer<LT> for CharLexer<'_> {
    fn iter<'a>(&'a self) -> Box<dyn Iterator<Item = Result<Lx, LE>> + 'a> {
        Box::new(self.lexemes.iter().map(|x| Ok(*x)))
    }
}
impl<'i> NonStreamingLexer<'i, LT> for CharLexer<'i> {
    fn span_str(&self, span: Span) -> &'i str {
        &self.s[span.start()..span.end()]
    }
    fn span_lines_str(&self, _: Span) -> &'i str {
        self.s
    }
    fn line_col(&self, span: Span) -> ((usize, usize), (usize, usize)) {
        ((1, span.start() + 1), (1, span.end() + 1))
    }
}

const GRM: &str = "%start S
%%
S: 'a' R;
R: 'e' Bs 'c' Ds
 | 'c' 'd' 'd' 'd' 'x';
Bs: | Bs 'b';
Ds: | Ds 'd' | Ds 'y';
";

fn pp(grm: &YaccGrammar<u16>, rs: &[ParseRepair<Lx, u16>]) -> String {
    let mut out: Vec<String> = Vec::new();
    let mut i = 0;
    while i < rs.len() {
        match rs[i] {
            ParseRepair::Insert(t) => {
                out.push(format!("Insert {}", grm.token_name(t).unwrap()));
                i += 1;
            }
            ParseRepair::Shift(_) => {
                out.push("Shift".into());
                i += 1;
            }
            ParseRepair::Delete(_) => {
                let mut n = 0;
                while i < rs.len() && matches!(rs[i], ParseRepair::Delete(_)) {
                    n += 1;
                    i += 1;
                }
                out.push(format!("Delete x{}", n));
            }
        }
    }
    out.join(", ")
}

/// Parse `a b^n c d d d y` with cost('b') = 1 and every other token costing `n` (so that deleting
/// all the 'b's and inserting one 'e' cost the same). Returns the number of errors and the
/// pretty-printed repairs of the first error.
fn run(n: u8) -> (usize, Vec<String>) {
    let grm = YaccGrammar::<u16>::new_with_storaget(
        YaccKind::Original(YaccOriginalActionKind::NoAction),
        GRM,
    )
    .unwrap();
    let (_, stable) = from_yacc(&grm, Minimiser::Pager).unwrap();
    assert!(stable.conflicts().is_none());

    let input = format!("a{}cdddy", "b".repeat(usize::from(n)));
    let lexemes = input
        .char_indices()
        .map(|(i, c)| {
            let tidx = grm.token_idx(&c.to_string()).unwrap();
            Lx::new(u16::try_from(u32::from(tidx)).unwrap(), i, 1)
        })
        .collect::<Vec<_>>();
    let lexer = CharLexer { s: &input, lexemes };

    // All legal costs (1..=255).
    let b = grm.token_idx("b").unwrap();
    let cost = move |t: TIdx<u16>| -> u8 { if t == b { 1 } else { n } };
    let (_, errs) = RTParserBuilder::<u16, LT>::new(&grm, &stable)
        .term_costs(&cost)
        .parse_map(&lexer, &|_| (), &|_, _| ());

    assert!(!errs.is_empty());
    let LexParseError::ParseError(pe) = &errs[0] else { unreachable!() };
    // The error is at the first 'b' (lexeme index 1).
    assert_eq!(pe.lexeme().span(), Span::new(1, 2));
    let reported = pe.repairs().iter().map(|r| pp(&grm, r)).collect::<Vec<_>>();
    eprintln!("n = {}: {} error(s); repairs of the first error: {:?}", n, errs.len(), reported);
    assert!(!reported.is_empty(), "no repairs found (time budget?)");
    (errs.len(), reported)
}

// There are exactly two repairs of minimum cost n:
//  A. delete the n 'b's (n * 1)              -> "a c d d d y": fails again at 'y'
//  B. insert 'e' (n) before the first 'b'    -> "a e b^n c d d d y": a sentence of the
//     grammar, i.e. parsing continues to the end of the input.
// B lets parsing continue at least as far as A (strictly further, in fact), so the clause
// "every minimum-cost repair that lets parsing continue as far as the best of them is reported"
// requires B to be in the list, whatever n is.

#[test]
fn control_below_the_cap_insert_e_is_reported() {
    // n < TRY_PARSE_AT_MOST - 4: both candidates are measured with the same yardstick and only B
    // (which parses further) survives. This test passes.
    let (nerrs, reported) = run(240);
    assert_eq!(reported, vec!["Insert e".to_string()]);
    assert_eq!(nerrs, 1);
}

#[test]
fn min_cost_repair_that_parses_furthest_is_reported() {
    let (_, reported) = run(255);
    assert!(
        reported.iter().any(|r| r == "Insert e"),
        "the minimum-cost repair `Insert e`, which makes the whole input parse, is not reported; \
         reported: {:?}",
        reported
    );
}

#[test]
fn chosen_repair_should_not_cause_a_second_error() {
    // Same input seen from the outside: with `Insert e` the input is a sentence, so a recovery
    // that ranks by "how far parsing continues" must end up with exactly one error.
    let (nerrs, _) = run(255);
    assert_eq!(
        nerrs, 1,
        "the furthest-parsing minimum-cost repair (Insert e) was ranked out: a second error is \
         reported at 'y'"
    );
}

// ---------------------------------------------------------------------------------------------
// The same defect with the default (uniform, unit) costs.
//
//   S: 'p' 'q' Rest;  Rest: Ps 'z' | 'k'^90 'x' Ts 'z';  Ps: | Ps 'p' 'q';  Ts: | Ts 'p' 'q' 'x';
//   input: (p q x)^90 z          error at the first 'x'
//
// Two repairs of minimum cost 90 exist:
//   A. delete each of the 90 'x's (with two shifts between deletions): ends at lexeme 270
//   B. insert 90 'k's in front of the first 'x'
// With either of them the whole input is accepted, so both let parsing continue equally far and
// both must be reported.
fn run_unit(n: usize) -> (usize, Vec<String>) {
    let grms = format!(
        "%start S
%%
S: 'p' 'q' Rest;
Rest: Ps 'z' | {} 'x' Ts 'z';
Ps: | Ps 'p' 'q';
Ts: | Ts 'p' 'q' 'x';
",
        "'k' ".repeat(n)
    );
    let grm = YaccGrammar::<u16>::new_with_storaget(
        YaccKind::Original(YaccOriginalActionKind::NoAction),
        &grms,
    )
    .unwrap();
    let (_, stable) = from_yacc(&grm, Minimiser::Pager).unwrap();
    assert!(stable.conflicts().is_none());
    let input = format!("{}z", "pqx".repeat(n));
    let lexemes = input
        .char_indices()
        .map(|(i, c)| {
            let tidx = grm.token_idx(&c.to_string()).unwrap();
            Lx::new(u16::try_from(u32::from(tidx)).unwrap(), i, 1)
        })
        .collect::<Vec<_>>();
    let lexer = CharLexer { s: &input, lexemes };
    // No term_costs(): every token costs 1.
    let (_, errs) =
        RTParserBuilder::<u16, LT>::new(&grm, &stable).parse_map(&lexer, &|_| (), &|_, _| ());
    assert!(!errs.is_empty());
    let LexParseError::ParseError(pe) = &errs[0] else { unreachable!() };
    assert_eq!(pe.lexeme().span(), Span::new(2, 3));
    let reported = pe
        .repairs()
        .iter()
        .map(|r| {
            let ins = r.iter().filter(|x| matches!(x, ParseRepair::Insert(_))).count();
            let del = r.iter().filter(|x| matches!(x, ParseRepair::Delete(_))).count();
            let shf = r.iter().filter(|x| matches!(x, ParseRepair::Shift(_))).count();
            format!("{} inserts, {} deletes, {} shifts", ins, del, shf)
        })
        .collect::<Vec<_>>();
    eprintln!("unit costs, n = {n}: {} error(s); repairs of the first error: {:?}", errs.len(), reported);
    assert!(!reported.is_empty(), "no repairs found (time budget?)");
    (errs.len(), reported)
}

// The search for these two takes longer than the 500ms recovery budget in an unoptimised build:
// run them with --release (see run.txt).
#[test]
#[cfg_attr(debug_assertions, ignore)]
fn unit_costs_control_below_the_cap() {
    // 70 groups: both repairs end below in_laidx + 250; both are reported. Passes.
    let (nerrs, reported) = run_unit(70);
    assert_eq!(nerrs, 1);
    assert!(reported.iter().any(|r| r.starts_with("0 inserts, 70 deletes")), "{:?}", reported);
    assert!(reported.iter().any(|r| r.starts_with("70 inserts, 0 deletes")), "{:?}", reported);
}

#[test]
#[cfg_attr(debug_assertions, ignore)]
fn unit_costs_both_complete_repairs_are_reported() {
    let (nerrs, reported) = run_unit(84);
    assert_eq!(nerrs, 1);
    assert!(
        reported.iter().any(|r| r.starts_with("0 inserts, 84 deletes")),
        "deleting the 90 'x's is not reported: {:?}",
        reported
    );
    assert!(
        reported.iter().any(|r| r.starts_with("84 inserts, 0 deletes")),
        "inserting 90 'k's (same cost 90, input then accepted just as well) is not reported: {:?}",
        reported
    );
}
