// Property C17, clause "... and all these queries terminate" (quantifier: all grammars, incl.
// unit cycles) for SentenceGenerator::min_sentences.
//
// Grammar (m = 14, i.e. 15 user rules, 198 productions, every production has ONE symbol):
//   R0: R1 | 'x';
//   Ri: R0 | R1 | ... | Rm   (all j != i)        for i = 1..m
// Every rule derives exactly one sentence, `x` (cost 1), so min_sentences(R0) == [[x]].
// min_sentences_below excludes rules only along the current path (`active`) and does not memoise,
// so it walks every simple path through the clique R1..Rm: about e * (m-1)! paths. Measured
// (release): m=8 1.2ms, m=9 11ms, m=10 116ms -> m=14 ~ 1 hour, m=16 ~ 10 days, m=20 ~ centuries.
use cfgrammar::yacc::{YaccGrammar, YaccKind, YaccOriginalActionKind};
use std::{sync::mpsc, thread, time::Duration};

fn src(m: usize) -> String {
    let mut s = String::from("%start R0\n%%\nR0: R1 | 'x';\n");
    for i in 1..=m {
        let alts: Vec<String> = (0..=m)
            .filter(|j| *j != i)
            .map(|j| format!("R{}", j))
            .collect();
        s.push_str(&format!("R{}: {};\n", i, alts.join(" | ")));
    }
    s
}

fn grm(m: usize) -> YaccGrammar<u32> {
    YaccGrammar::new(
        YaccKind::Original(YaccOriginalActionKind::GenericParseTree),
        &src(m),
    )
    .unwrap()
}

#[test]
fn min_sentences_terminates_on_unit_cycles() {
    let (tx, rx) = mpsc::channel();
    thread::spawn(move || {
        let g = grm(14);
        let sg = g.sentence_generator(|_| 1);
        let r0 = g.rule_idx("R0").unwrap();
        // The cheap queries answer at once on the same grammar:
        assert_eq!(sg.min_sentence_cost(r0), 1);
        assert_eq!(sg.max_sentence_cost(r0), Some(1));
        assert_eq!(sg.min_sentence(r0), vec![g.token_idx("x").unwrap()]);
        let ms = sg.min_sentences(r0);
        tx.send(ms).ok();
    });
    let r = rx.recv_timeout(Duration::from_secs(30));
    assert!(
        r.is_ok(),
        "C17 'all these queries terminate': min_sentences(R0) on a 16-rule grammar whose only \
         sentence is `x` did not answer within 30s (it enumerates ~e*13! simple paths)"
    );
    assert_eq!(r.unwrap().len(), 1);
}

// Corollary of the same mechanism: the one minimal sentence is returned once per simple path.
#[test]
fn min_sentences_does_not_repeat_the_sentence_factorially() {
    let g = grm(9);
    let sg = g.sentence_generator(|_| 1);
    let ms = sg.min_sentences(g.rule_idx("R1").unwrap());
    let x = g.token_idx("x").unwrap();
    assert!(ms.iter().all(|s| s == &vec![x]));
    assert!(
        ms.len() <= usize::from(g.prods_len()),
        "min_sentences(R1) returned the single minimal sentence `x` {} times (11-rule grammar, {} productions)",
        ms.len(),
        usize::from(g.prods_len())
    );
}
