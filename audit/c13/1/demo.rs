//! C13 audit demo 1: the value computed by a generated parser differs from the value computed by
//! the run-time parser built from the same sources (and from call to call), because CPCT+ applies
//! an arbitrary (hash-order dependent) one of several equally ranked repair sequences.
//!
//! Clause: "the Rust module they generate, once compiled, lexes and parses every input to the same
//! lexemes, the same value or tree, and the same errors with the same repair sets as building the
//! lexer and parser from the same sources at run time."
//!
//! The test writes a tiny crate (build.rs = CTLexerBuilder + CTParserBuilder, main.rs = generated
//! parser vs RTParserBuilder on the same sources) below `<workspace>/target/audit-demo-crates`,
//! builds and runs it with `cargo --offline`, and checks what it prints.

use std::{
    fs,
    path::{Path, PathBuf},
    process::Command,
};

fn workspace() -> PathBuf {
    Path::new(env!("CARGO_MANIFEST_DIR"))
        .parent()
        .unwrap()
        .to_path_buf()
}

fn make_crate(name: &str, files: &[(&str, &str)]) -> PathBuf {
    let ws = workspace();
    let dir = ws.join("target").join("audit-demo-crates").join(name);
    fs::create_dir_all(dir.join("src")).unwrap();
    let manifest = format!(
        "[package]\nname = \"{name}\"\nversion = \"0.1.0\"\nedition = \"2021\"\nbuild = \"build.rs\"\n\n[workspace]\n\n\
         [build-dependencies]\ncfgrammar = {{ path = \"{ws}/cfgrammar\" }}\nlrlex = {{ path = \"{ws}/lrlex\" }}\nlrpar = {{ path = \"{ws}/lrpar\" }}\n\n\
         [dependencies]\ncfgrammar = {{ path = \"{ws}/cfgrammar\" }}\nlrlex = {{ path = \"{ws}/lrlex\" }}\nlrpar = {{ path = \"{ws}/lrpar\" }}\nlrtable = {{ path = \"{ws}/lrtable\" }}\n",
        ws = ws.display()
    );
    fs::write(dir.join("Cargo.toml"), manifest).unwrap();
    if let Ok(lock) = fs::read(ws.join("Cargo.lock")) {
        fs::write(dir.join("Cargo.lock"), lock).unwrap();
    }
    for (p, c) in files {
        fs::write(dir.join(p), c).unwrap();
    }
    dir
}

fn cargo_run(dir: &Path) -> (bool, String, String) {
    let out = Command::new(env!("CARGO"))
        .args(["run", "--offline", "--quiet"])
        .current_dir(dir)
        .env("CARGO_TARGET_DIR", workspace().join("target").join("audit-demo"))
        .env_remove("RUSTFLAGS")
        .output()
        .unwrap();
    (
        out.status.success(),
        String::from_utf8_lossy(&out.stdout).into_owned(),
        String::from_utf8_lossy(&out.stderr).into_owned(),
    )
}

const GRM: &str = r#"%grmtools{yacckind: Grmtools}
%start S
%%
S -> String: 'a' { "A".to_string() } | 'b' { "B".to_string() } ;
"#;

const LEX: &str = "%%\na 'a'\nb 'b'\n[ ]+ ;\n";

const BUILD_RS: &str = r#"
use lrlex::CTLexerBuilder;
fn main() {
    CTLexerBuilder::new()
        .lrpar_config(|ctp| ctp.grammar_in_src_dir("g.y").unwrap())
        .lexer_in_src_dir("l.l")
        .unwrap()
        .build()
        .unwrap();
}
"#;

const MAIN_RS: &str = r#"
use cfgrammar::yacc::{YaccGrammar, YaccKind};
use lrlex::{lrlex_mod, DefaultLexerTypes, LRNonStreamingLexerDef, LexerDef};
use lrpar::{lrpar_mod, LexParseError, Lexeme, RTParserBuilder};
use lrtable::{from_yacc, Minimiser};
use std::collections::{BTreeSet, HashMap};
lrlex_mod!("l.l");
lrpar_mod!("g.y");

fn main() {
    let input = "";
    // Compile-time pipeline.
    let ct_ld = l_l::lexerdef();
    let mut ct_vals = BTreeSet::new();
    let mut ct_repairs = BTreeSet::new();
    for _ in 0..40 {
        let lexer = ct_ld.lexer(input);
        let (v, errs) = g_y::parse(&lexer);
        ct_vals.insert(format!("{:?}", v));
        let mut e = errs.iter().map(|e| match e {
            // the repair *set* of each error, order-insensitively
            LexParseError::ParseError(pe) => {
                let mut seqs = pe.repairs().iter().map(|s| format!("{:?}", s)).collect::<Vec<_>>();
                seqs.sort();
                format!("{:?} {:?} {}", pe.stidx(), pe.lexeme(), seqs.join(" ;; "))
            }
            LexParseError::LexError(le) => format!("{:?}", le),
        }).collect::<Vec<_>>();
        e.sort();
        ct_repairs.insert(e.join("\n"));
    }
    // Run-time pipeline from the same sources.
    let ys = include_str!("g.y");
    let ls = include_str!("l.l");
    let grm = YaccGrammar::<u32>::new_with_storaget(YaccKind::Grmtools, ys).unwrap();
    let (_, stable) = from_yacc(&grm, Minimiser::Pager).unwrap();
    let mut rt_ld = LRNonStreamingLexerDef::<DefaultLexerTypes<u32>>::from_str(ls).unwrap();
    let map: HashMap<&str, u32> = grm.tokens_map().iter().map(|(k, v)| (*k, v.as_storaget())).collect();
    rt_ld.set_rule_ids(&map);
    let mut rt_vals = BTreeSet::new();
    for _ in 0..40 {
        let lexer = rt_ld.lexer(input);
        // The run-time analogue of the two actions: 'a' => "A", 'b' => "B".
        let (v, _) = RTParserBuilder::new(&grm, &stable).parse_map(
            &lexer,
            &|l| if grm.token_name(cfgrammar::TIdx(l.tok_id())) == Some("a") { "A".to_string() } else { "B".to_string() },
            &|_, mut nodes: Vec<String>| nodes.pop().unwrap(),
        );
        rt_vals.insert(format!("{:?}", v));
    }
    println!("CT_VALUES={}", ct_vals.into_iter().collect::<Vec<_>>().join(","));
    println!("RT_VALUES={}", rt_vals.into_iter().collect::<Vec<_>>().join(","));
    println!("CT_REPAIR_SETS={}", ct_repairs.len());
}
"#;

#[test]
fn generated_parser_value_equals_runtime_value_after_recovery() {
    let dir = make_crate(
        "audit_demo_1",
        &[
            ("src/g.y", GRM),
            ("src/l.l", LEX),
            ("build.rs", BUILD_RS),
            ("src/main.rs", MAIN_RS),
        ],
    );
    let (ok, stdout, stderr) = cargo_run(&dir);
    assert!(ok, "demo crate failed to build/run:\n{stderr}");
    let get = |k: &str| {
        stdout
            .lines()
            .find_map(|l| l.strip_prefix(k))
            .unwrap_or_else(|| panic!("missing {k} in:\n{stdout}"))
            .to_string()
    };
    let ct = get("CT_VALUES=");
    let rt = get("RT_VALUES=");
    // The repair *sets* agree (this part of the clause holds) ...
    assert_eq!(get("CT_REPAIR_SETS="), "1", "repair sets differ between calls");
    // ... but "the same value or tree" does not: on the empty input both `Insert a` and
    // `Insert b` are minimal repairs; which one is applied depends on HashSet iteration order.
    assert!(
        !ct.contains(','),
        "C13 violated: 40 calls of the generated parser on the same input returned different values: {ct}"
    );
    assert_eq!(
        ct, rt,
        "C13 violated: generated parser value(s) {ct} != run-time parser value(s) {rt}"
    );
}
