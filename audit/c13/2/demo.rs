//! C13 audit demo 2: two rules whose names differ only in case (`a` and `A`, or `expr` / `Expr`)
//! are accepted by CTParserBuilder, but both are turned into the constant `R_A`, so the generated
//! module does not compile (E0428) while the run-time pipeline handles the grammar fine.
//!
//! Clause: "For any grammar and lexer specification the builders accept, the Rust module they
//! generate, once compiled, lexes and parses every input to the same ... value" (observe_at:
//! "generated <mod>_y::parse, <mod>_y::token_epp, R_* consts").

use std::{
    fs,
    path::{Path, PathBuf},
    process::Command,
};

fn workspace() -> PathBuf {
    Path::new(env!("CARGO_MANIFEST_DIR"))
        .parent()
        .unwrap()
        .to_path_buf()
}

fn make_crate(name: &str, files: &[(&str, &str)]) -> PathBuf {
    let ws = workspace();
    let dir = ws.join("target").join("audit-demo-crates").join(name);
    fs::create_dir_all(dir.join("src")).unwrap();
    let manifest = format!(
        "[package]\nname = \"{name}\"\nversion = \"0.1.0\"\nedition = \"2021\"\nbuild = \"build.rs\"\n\n[workspace]\n\n\
         [build-dependencies]\ncfgrammar = {{ path = \"{ws}/cfgrammar\" }}\nlrlex = {{ path = \"{ws}/lrlex\" }}\nlrpar = {{ path = \"{ws}/lrpar\" }}\n\n\
         [dependencies]\ncfgrammar = {{ path = \"{ws}/cfgrammar\" }}\nlrlex = {{ path = \"{ws}/lrlex\" }}\nlrpar = {{ path = \"{ws}/lrpar\" }}\nlrtable = {{ path = \"{ws}/lrtable\" }}\n",
        ws = ws.display()
    );
    fs::write(dir.join("Cargo.toml"), manifest).unwrap();
    if let Ok(lock) = fs::read(ws.join("Cargo.lock")) {
        fs::write(dir.join("Cargo.lock"), lock).unwrap();
    }
    for (p, c) in files {
        fs::write(dir.join(p), c).unwrap();
    }
    dir
}

fn cargo(sub: &str, dir: &Path) -> (bool, String, String) {
    let out = Command::new(env!("CARGO"))
        .args([sub, "--offline", "--quiet"])
        .current_dir(dir)
        .env("CARGO_TARGET_DIR", workspace().join("target").join("audit-demo"))
        .env_remove("RUSTFLAGS")
        .output()
        .unwrap();
    (
        out.status.success(),
        String::from_utf8_lossy(&out.stdout).into_owned(),
        String::from_utf8_lossy(&out.stderr).into_owned(),
    )
}


const GRM: &str = r#"%grmtools{yacckind: Grmtools}
%start s
%%
s -> u32: a A { $1 + $2 } ;
a -> u32: 'x' { 1 } ;
A -> u32: 'y' { 2 } ;
"#;

const LEX: &str = "%%\nx 'x'\ny 'y'\n[ ]+ ;\n";

const BUILD_RS: &str = r#"
use lrlex::CTLexerBuilder;
fn main() {
    // The builders accept the grammar: build() returns Ok.
    CTLexerBuilder::new()
        .lrpar_config(|ctp| ctp.grammar_in_src_dir("g.y").unwrap())
        .lexer_in_src_dir("l.l")
        .unwrap()
        .build()
        .expect("builders must accept the grammar");
}
"#;

const MAIN_RS: &str = r#"
use cfgrammar::yacc::{YaccGrammar, YaccKind};
use lrlex::lrlex_mod;
use lrpar::lrpar_mod;
lrlex_mod!("l.l");
lrpar_mod!("g.y");

fn main() {
    let ld = l_l::lexerdef();
    let lexer = ld.lexer("x y");
    let (v, errs) = g_y::parse(&lexer);
    assert!(errs.is_empty());
    println!("CT_VALUE={:?}", v);
    let grm = YaccGrammar::<u32>::new_with_storaget(YaccKind::Grmtools, include_str!("g.y")).unwrap();
    println!("R_CONSTS_OK={}", u32::from(grm.rule_idx("s").unwrap()) == g_y::R_S);
}
"#;

#[test]
fn rules_differing_only_in_case_compile_and_parse() {
    let dir = make_crate(
        "audit_demo_2",
        &[
            ("src/g.y", GRM),
            ("src/l.l", LEX),
            ("build.rs", BUILD_RS),
            ("src/main.rs", MAIN_RS),
        ],
    );
    let (ok, stdout, stderr) = cargo("run", &dir);
    assert!(
        !stderr.contains("builders must accept the grammar"),
        "the builders rejected the grammar (that would be fine):\n{stderr}"
    );
    assert!(
        ok,
        "C13 violated: the builders accepted the grammar (rules `a` and `A`) but the generated \
         parser module does not compile:\n{stderr}"
    );
    assert!(stdout.contains("CT_VALUE=Some(3)"), "{stdout}");
}
