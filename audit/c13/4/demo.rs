//! C13 audit demo 4: `%parse-param grm: u32` (likewise `stable`, `actions`, `lexer`, `__data`)
//! is accepted by CTParserBuilder, but the generated `parse()` declares locals of the same names
//! (`let grm = __data.grm(); let stable = ...; let actions = ...`) *after* the user's parameter and
//! then passes `grm` to `parse_actions`: the generated module does not compile (E0308 / E0415).
//!
//! Clause: "For any grammar ... the builders accept, the Rust module they generate, once compiled,
//! ... parses every input to ... the same value" (mechanism: "generated parse(): reconstitute
//! serialised grammar+table, call run-time parser").

use std::{
    fs,
    path::{Path, PathBuf},
    process::Command,
};

fn workspace() -> PathBuf {
    Path::new(env!("CARGO_MANIFEST_DIR"))
        .parent()
        .unwrap()
        .to_path_buf()
}

fn make_crate(name: &str, files: &[(&str, &str)]) -> PathBuf {
    let ws = workspace();
    let dir = ws.join("target").join("audit-demo-crates").join(name);
    fs::create_dir_all(dir.join("src")).unwrap();
    let manifest = format!(
        "[package]\nname = \"{name}\"\nversion = \"0.1.0\"\nedition = \"2021\"\nbuild = \"build.rs\"\n\n[workspace]\n\n\
         [build-dependencies]\ncfgrammar = {{ path = \"{ws}/cfgrammar\" }}\nlrlex = {{ path = \"{ws}/lrlex\" }}\nlrpar = {{ path = \"{ws}/lrpar\" }}\n\n\
         [dependencies]\ncfgrammar = {{ path = \"{ws}/cfgrammar\" }}\nlrlex = {{ path = \"{ws}/lrlex\" }}\nlrpar = {{ path = \"{ws}/lrpar\" }}\nlrtable = {{ path = \"{ws}/lrtable\" }}\n",
        ws = ws.display()
    );
    fs::write(dir.join("Cargo.toml"), manifest).unwrap();
    if let Ok(lock) = fs::read(ws.join("Cargo.lock")) {
        fs::write(dir.join("Cargo.lock"), lock).unwrap();
    }
    for (p, c) in files {
        fs::write(dir.join(p), c).unwrap();
    }
    dir
}

fn cargo(sub: &str, dir: &Path) -> (bool, String, String) {
    let out = Command::new(env!("CARGO"))
        .args([sub, "--offline", "--quiet"])
        .current_dir(dir)
        .env("CARGO_TARGET_DIR", workspace().join("target").join("audit-demo"))
        .env_remove("RUSTFLAGS")
        .output()
        .unwrap();
    (
        out.status.success(),
        String::from_utf8_lossy(&out.stdout).into_owned(),
        String::from_utf8_lossy(&out.stderr).into_owned(),
    )
}


const GRM: &str = r#"%grmtools{yacckind: Grmtools}
%start s
%parse-param grm: u32
%%
s -> u32: 'x' { grm + 1 } ;
"#;

const LEX: &str = "%%\nx 'x'\n[ ]+ ;\n";

const BUILD_RS: &str = r#"
use lrlex::CTLexerBuilder;
fn main() {
    CTLexerBuilder::new()
        .lrpar_config(|ctp| ctp.grammar_in_src_dir("g.y").unwrap())
        .lexer_in_src_dir("l.l")
        .unwrap()
        .build()
        .expect("builders must accept the grammar");
}
"#;

const MAIN_RS: &str = r#"
use lrlex::lrlex_mod;
use lrpar::lrpar_mod;
lrlex_mod!("l.l");
lrpar_mod!("g.y");

fn main() {
    let ld = l_l::lexerdef();
    let lexer = ld.lexer("x");
    let (v, errs) = g_y::parse(&lexer, 41);
    assert!(errs.is_empty());
    println!("CT_VALUE={:?}", v);
}
"#;

#[test]
fn parse_param_named_like_a_local_of_generated_parse() {
    let dir = make_crate(
        "audit_demo_4",
        &[
            ("src/g.y", GRM),
            ("src/l.l", LEX),
            ("build.rs", BUILD_RS),
            ("src/main.rs", MAIN_RS),
        ],
    );
    let (ok, stdout, stderr) = cargo("run", &dir);
    assert!(
        !stderr.contains("builders must accept the grammar"),
        "the builders rejected the grammar (that would be fine):\n{stderr}"
    );
    assert!(
        ok,
        "C13 violated: the builders accepted `%parse-param grm: u32` but the generated parser \
         module does not compile:\n{stderr}"
    );
    assert!(stdout.contains("CT_VALUE=Some(42)"), "{stdout}");
}
