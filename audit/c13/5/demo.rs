//! C13 audit demo 5 (build history): CTParserBuilder decides whether to regenerate the parser from
//! (a) the modification time of the file named by `grammar_path` and (b) a cache key that records
//! the builder settings -- but neither covers the grammar the parser is actually built from when it
//! is supplied through `grammar_ast()` / `with_grammar_src()` (the mechanism `lrpar/cttests/build.rs`
//! uses to build a second parser with another start rule). If a later build passes a different AST
//! (here: the start rule changed from `A` to `B`) for the same output path, `build()` reports
//! `Ok`, does not regenerate, and the stale module for the old start rule is compiled: the
//! generated parser then disagrees with the run-time parser built from the same AST.
//!
//! Clause: "the Rust module they generate, once compiled, ... parses every input to ... the same
//! value or tree, and the same errors ... as building the lexer and parser from the same sources at
//! run time" (quantifier: builder settings / build histories; anchor lrpar/cttests/build.rs).

use std::{
    fs,
    path::{Path, PathBuf},
    process::Command,
};

fn workspace() -> PathBuf {
    Path::new(env!("CARGO_MANIFEST_DIR"))
        .parent()
        .unwrap()
        .to_path_buf()
}

fn make_crate(name: &str, files: &[(&str, &str)]) -> PathBuf {
    let ws = workspace();
    let dir = ws.join("target").join("audit-demo-crates").join(name);
    fs::create_dir_all(dir.join("src")).unwrap();
    let manifest = format!(
        "[package]\nname = \"{name}\"\nversion = \"0.1.0\"\nedition = \"2021\"\nbuild = \"build.rs\"\n\n[workspace]\n\n\
         [build-dependencies]\ncfgrammar = {{ path = \"{ws}/cfgrammar\" }}\nlrlex = {{ path = \"{ws}/lrlex\" }}\nlrpar = {{ path = \"{ws}/lrpar\", features = [\"_unstable_api\"] }}\n\n\
         [dependencies]\ncfgrammar = {{ path = \"{ws}/cfgrammar\" }}\nlrlex = {{ path = \"{ws}/lrlex\" }}\nlrpar = {{ path = \"{ws}/lrpar\" }}\nlrtable = {{ path = \"{ws}/lrtable\" }}\n",
        ws = ws.display()
    );
    fs::write(dir.join("Cargo.toml"), manifest).unwrap();
    if let Ok(lock) = fs::read(ws.join("Cargo.lock")) {
        fs::write(dir.join("Cargo.lock"), lock).unwrap();
    }
    for (p, c) in files {
        fs::write(dir.join(p), c).unwrap();
    }
    dir
}

fn cargo(sub: &str, dir: &Path) -> (bool, String, String) {
    let out = Command::new(env!("CARGO"))
        .args([sub, "--offline", "--quiet"])
        .current_dir(dir)
        .env("CARGO_TARGET_DIR", workspace().join("target").join("audit-demo"))
        .env_remove("RUSTFLAGS")
        .output()
        .unwrap();
    (
        out.status.success(),
        String::from_utf8_lossy(&out.stdout).into_owned(),
        String::from_utf8_lossy(&out.stderr).into_owned(),
    )
}


const GRM: &str = r#"%grmtools{yacckind: Grmtools}
%start A
%%
A -> String: 'x' { "A".to_string() } ;
B -> String: 'x' 'x' { "B".to_string() } ;
"#;

const LEX: &str = "%%\nx 'x'\n[ ]+ ;\n";

const BUILD_RS: &str = r#"
use cfgrammar::yacc::{ast::ASTWithValidityInfo, YaccGrammar, YaccKind};
use lrlex::CTLexerBuilder;
use lrpar::unstable_api::UnstableApi;
fn main() {
    println!("cargo::rerun-if-changed=src/start.txt");
    let start = std::fs::read_to_string("src/start.txt").unwrap().trim().to_string();
    let src = std::fs::read_to_string("src/g.y").unwrap();
    let ast = ASTWithValidityInfo::new(YaccKind::Grmtools, &src);
    let ast = if start == "A" {
        ast
    } else {
        let r = ast.ast().get_rule(&start).unwrap().clone();
        ast.clone_and_change_start_rule(r).unwrap()
    };
    // What the run-time pipeline makes of the same AST: its start rule.
    let grm = YaccGrammar::<u32>::new_from_ast_with_validity_info(&ast).unwrap();
    let rt_start = match grm.prod(grm.start_prod())[0] {
        cfgrammar::Symbol::Rule(r) => grm.rule_name_str(r).to_string(),
        _ => unreachable!(),
    };
    std::fs::write(format!("{}/rt_start.txt", std::env::var("OUT_DIR").unwrap()), rt_start).unwrap();
    let src2 = src.clone();
    CTLexerBuilder::new()
        .lrpar_config(move |ctp| {
            ctp.grammar_ast(ast.clone(), UnstableApi)
                .with_grammar_src(src2.clone(), UnstableApi)
                .grammar_in_src_dir("g.y")
                .unwrap()
                .warnings_are_errors(false)
                .show_warnings(false)
        })
        .lexer_in_src_dir("l.l")
        .unwrap()
        .build()
        .unwrap();
}
"#;

const MAIN_RS: &str = r#"
use lrlex::lrlex_mod;
use lrpar::lrpar_mod;
lrlex_mod!("l.l");
lrpar_mod!("g.y");

fn main() {
    let ld = l_l::lexerdef();
    let lexer = ld.lexer("x x");
    let (v, errs) = g_y::parse(&lexer);
    println!("RT_START={}", include_str!(concat!(env!("OUT_DIR"), "/rt_start.txt")));
    println!("CT_XX={:?}/{}", v, errs.len());
}
"#;

#[test]
fn changed_ast_regenerates_the_parser() {
    let dir = make_crate(
        "audit_demo_5",
        &[
            ("src/g.y", GRM),
            ("src/l.l", LEX),
            ("src/start.txt", "A\n"),
            ("build.rs", BUILD_RS),
            ("src/main.rs", MAIN_RS),
        ],
    );
    // Make sure we start from a clean history: remove generated parsers of earlier runs.
    let tdir = workspace().join("target").join("audit-demo").join("debug").join("build");
    if let Ok(rd) = fs::read_dir(&tdir) {
        for e in rd.flatten() {
            if e.file_name().to_string_lossy().starts_with("audit_demo_5-") {
                fs::remove_dir_all(e.path()).ok();
            }
        }
    }
    // Build 1: start rule A. "x x" is a syntax error for A (one 'x' too many).
    let (ok, stdout1, stderr) = cargo("run", &dir);
    assert!(ok, "build 1 failed:\n{stderr}");
    assert!(stdout1.contains("RT_START=A"), "{stdout1}");
    assert!(stdout1.contains("CT_XX=Some(\"A\")/1"), "{stdout1}");
    // Build 2: same grammar file, same output path, but the AST handed to `grammar_ast` now has
    // start rule B, for which "x x" is a valid sentence with value "B".
    std::thread::sleep(std::time::Duration::from_millis(1100));
    fs::write(dir.join("src/start.txt"), "B\n").unwrap();
    let (ok, stdout2, stderr) = cargo("run", &dir);
    assert!(ok, "build 2 failed:\n{stderr}");
    assert!(stdout2.contains("RT_START=B"), "build.rs did not rerun: {stdout2}");
    assert!(
        stdout2.contains("CT_XX=Some(\"B\")/0"),
        "C13 violated: the run-time grammar built from the AST starts at B, but the generated \
         parser is still the one for start rule A (stale output was kept):\n{stdout2}"
    );
}
