//! C14: "Serialising a grammar and its state table in either supported format and reconstituting
//! them, as every generated parser does at start-up, gives objects on which every public query
//! ... returns the same answer as on the originals" -- for ALL grammars x {fixed, variable}
//! encodings x storage widths.
//!
//! The grammar below has 3 tokens, 2400 rules, 4800 productions and 7200 states: every count fits
//! `u16` with a lot of room (and `u32`, the default, trivially). Yet neither format can serialise
//! its state table, so `CTParserBuilder::build()` cannot produce a parser for it: the
//! `states x productions` bit vector `core_reduces` needs 4_320_000 bytes, and both wincode
//! configurations used by `ctbuilder.rs` keep wincode's default 4 MiB "preallocation size limit",
//! which rejects (when writing *and* when reading) any single sequence bigger than that.
use std::{error::Error, fmt, fmt::Write as _, hash::Hash};

use cfgrammar::{
    Span,
    yacc::{YaccGrammar, YaccKind, YaccOriginalActionKind},
};
use lrpar::{
    CTParserBuilder, LexError, Lexeme, LexerTypes, SerialisationFormat,
    ctbuilder::{_reconstitute, wincode},
};
use lrtable::{Minimiser, StIdx, from_yacc};

#[derive(Clone, Copy, Debug, Eq, Hash, PartialEq)]
pub struct Lx {
    start: usize,
    len: usize,
    faulty: bool,
    tok_id: u16,
}
impl Lexeme<u16> for Lx {
    fn new(tok_id: u16, start: usize, len: usize) -> Self {
        Lx { start, len, faulty: false, tok_id }
    }
    fn new_faulty(tok_id: u16, start: usize, len: usize) -> Self {
        Lx { start, len, faulty: true, tok_id }
    }
    fn tok_id(&self) -> u16 {
        self.tok_id
    }
    fn span(&self) -> Span {
        Span::new(self.start, self.start + self.len)
    }
    fn faulty(&self) -> bool {
        self.faulty
    }
}
impl fmt::Display for Lx {
    fn fmt(&self, f: &mut fmt::Formatter) -> fmt::Result {
        write!(f, "Lx")
    }
}
#[derive(Debug)]
pub struct LxErr;
impl LexError for LxErr {
    fn span(&self) -> Span {
        Span::new(0, 0)
    }
}
impl Error for LxErr {}
impl fmt::Display for LxErr {
    fn fmt(&self, f: &mut fmt::Formatter) -> fmt::Result {
        write!(f, "LxErr")
    }
}
#[derive(Debug, Clone)]
pub struct LT;
impl LexerTypes for LT {
    type LexemeT = Lx;
    type StorageT = u16;
    type LexErrorT = LxErr;
}

const GPT: YaccKind = YaccKind::Original(YaccOriginalActionKind::GenericParseTree);

/// A0: 'a' A1 | 'b'; A1: 'a' A2 | 'b'; ... A{n-1}: 'b';
fn chain(n: usize) -> String {
    let mut s = String::from("%start A0\n%%\n");
    for i in 0..n - 1 {
        writeln!(s, "A{i}: 'a' A{} | 'b';", i + 1).ok();
    }
    writeln!(s, "A{}: 'b';", n - 1).ok();
    s
}

/// The round trip exactly as ctbuilder.rs does it (serialise at build time with
/// `Configuration::default().with_{fix,var}int_encoding()`, `_reconstitute` at start-up).
fn round_trip(n: usize) -> Vec<String> {
    let src = chain(n);
    let grm = YaccGrammar::<u16>::new_with_storaget(GPT, &src).unwrap();
    let (sg, st) = from_yacc(&grm, Minimiser::Pager).unwrap();
    let nstates = usize::from(sg.all_states_len());
    eprintln!(
        "n={n}: tokens={} rules={} prods={} states={} (u16::MAX = 65535)",
        usize::from(grm.tokens_len()),
        usize::from(grm.rules_len()),
        usize::from(grm.prods_len()),
        nstates
    );
    let mut bad = Vec::new();
    for fixed in [true, false] {
        let name = if fixed { "FixedSizeInteger" } else { "VariableSizedInteger" };
        let (g, s) = if fixed {
            let c = wincode::config::Configuration::default().with_fixint_encoding();
            (wincode::config::serialize(&grm, c), wincode::config::serialize(&st, c))
        } else {
            let c = wincode::config::Configuration::default().with_varint_encoding();
            (wincode::config::serialize(&grm, c), wincode::config::serialize(&st, c))
        };
        let (g, s) = match (g, s) {
            (Ok(g), Ok(s)) => (g, s),
            (g, s) => {
                bad.push(format!(
                    "{name}: cannot serialise: grammar: {:?}, state table: {:?}",
                    g.err(),
                    s.err()
                ));
                continue;
            }
        };
        let pd = if fixed {
            _reconstitute::<_, u16>(&g, &s, wincode::config::Configuration::default().with_fixint_encoding())
        } else {
            _reconstitute::<_, u16>(&g, &s, wincode::config::Configuration::default().with_varint_encoding())
        };
        for st_i in 0..nstates {
            let stidx = StIdx(st_i as u16);
            for tidx in grm.iter_tidxs() {
                if st.action(stidx, tidx) != pd.stable().action(stidx, tidx) {
                    bad.push(format!("{name}: action({st_i}, {tidx:?}) differs"));
                }
            }
            if st.core_reduces(stidx).collect::<Vec<_>>()
                != pd.stable().core_reduces(stidx).collect::<Vec<_>>()
            {
                bad.push(format!("{name}: core_reduces({st_i}) differs"));
            }
        }
    }
    bad
}

#[test]
fn slightly_smaller_grammar_round_trips() {
    // 7050 states x 4700 productions = 33_135_000 bits: just under 4 MiB. Fine.
    let bad = round_trip(2350);
    assert!(bad.is_empty(), "{}", bad.join("\n"));
}

#[test]
fn grammar_that_fits_u16_round_trips() {
    // 7200 states x 4800 productions = 34_560_000 bits = 4_320_000 bytes > 4 MiB.
    let bad = round_trip(2400);
    assert!(
        bad.is_empty(),
        "C14 'serialising a grammar and its state table in either supported format and \
         reconstituting them gives [equivalent] objects' (all grammars x both encodings x storage \
         widths) does not hold:\n{}",
        bad.join("\n")
    );
}

#[test]
fn ctparserbuilder_builds_grammar_that_fits_u16() {
    let dir = tempfile::tempdir().unwrap();
    let gp = dir.path().join("chain.y");
    std::fs::write(&gp, chain(2400)).unwrap();
    for fmt in [
        SerialisationFormat::VariableSizedInteger,
        SerialisationFormat::FixedSizeInteger,
    ] {
        let r = CTParserBuilder::<LT>::new()
            .yacckind(GPT)
            .serialisation_format(fmt)
            .grammar_path(&gp)
            .output_path(dir.path().join("chain.y.rs"))
            .build();
        assert!(
            r.is_ok(),
            "{fmt:?}: a conflict-free grammar whose tokens/rules/productions/states all fit \
             StorageT=u16 must be serialisable (C14), but build() says: {}",
            r.err().map(|e| e.to_string()).unwrap_or_default()
        );
    }
}
