// C07 audit demo 1: "a parse always returns" is violated on deeply nested input.
//
// Grammar (conflict free, acyclic, right recursive):   S: 'a' S | 'b' 'c' | ;
// Input: 500_000 x 'a' followed by 'b'  (one error: 'c' is missing at end of input).
//
// The plain LR loop keeps its stack in a `Vec` and handles this input without trouble (the
// control run below parses 500_000 x 'a' successfully on the same thread). As soon as one error
// is met, `CPCTPlus::recover` copies the whole parse stack into a `cactus::Cactus` (a singly
// linked list of `Rc` nodes, cpctplus.rs `start_cactus_pstack`). `Cactus` has no iterative `Drop`:
// releasing the last reference to a chain of n nodes recurses n levels deep, so for a parse
// stack of a few 100_000 entries the process dies with "thread has overflowed its stack /
// SIGABRT" -- `parse_map` never returns a `(value, errors)` pair.
//
// The workload is run in a child process (this same test binary re-executed) on a thread with an
// 8 MiB stack, the size of a main thread on Linux, so that the parent can state the violated
// clause in an assertion rather than being killed itself.

use std::{error::Error, fmt};

use cfgrammar::{
    Span,
    yacc::{YaccGrammar, YaccKind, YaccOriginalActionKind},
};
use lrpar::{LexError, LexParseError, Lexeme, Lexer, LexerTypes, NonStreamingLexer, RTParserBuilder};
use lrtable::{Minimiser, from_yacc};

#[derive(Debug, Clone)]
struct LT();
impl LexerTypes for LT {
    type LexemeT = Lx;
    type StorageT = u16;
    type LexErrorT = LE;
}
#[derive(Clone, Copy, Debug, Eq, Hash, PartialEq)]
struct Lx {
    start: usize,
    len: usize,
    faulty: bool,
    tok_id: u16,
}
impl Lexeme<u16> for Lx {
    fn new(tok_id: u16, start: usize, len: usize) -> Self {
        Lx { start, len, faulty: false, tok_id }
    }
    fn new_faulty(tok_id: u16, start: usize, len: usize) -> Self {
        Lx { start, len, faulty: true, tok_id }
    }
    fn tok_id(&self) -> u16 { self.tok_id }
    fn span(&self) -> Span { Span::new(self.start, self.start + self.len) }
    fn faulty(&self) -> bool { self.faulty }
}
impl fmt::Display for Lx {
    fn fmt(&self, f: &mut fmt::Formatter) -> fmt::Result { write!(f, "Lx") }
}
#[derive(Debug)]
struct LE {}
impl LexError for LE { fn span(&self) -> Span { unreachable!() } }
impl Error for LE {}
impl fmt::Display for LE {
    fn fmt(&self, _: &mut fmt::Formatter) -> fmt::Result { unreachable!() }
}
struct VL { lexemes: Vec<Lx> }
impl Lexer<LT> for VL {
    fn iter<'a>(&'a self) -> Box<dyn Iterator<Item = Result<Lx, LE>> + 'a> {
        Box::new(self.lexemes.iter().map(|x| Ok(*x)))
    }
}
impl<'input> NonStreamingLexer<'input, LT> for VL {
    fn span_str(&self, _: Span) -> &'input str { "" }
    fn span_lines_str(&self, _: Span) -> &'input str { "" }
    fn line_col(&self, _: Span) -> ((usize, usize), (usize, usize)) { ((1, 1), (1, 1)) }
}


const N: usize = 500_000;
const GRM: &str = "%start S\n%%\nS: 'a' S | 'b' 'c' | ;\n";

/// Parse `n` x 'a' followed (if `with_error`) by a lone 'b'. Returns (value is some, number of
/// errors, number of repair sequences of the first error).
fn run(n: usize, with_error: bool) -> (bool, usize, usize) {
    let grm = YaccGrammar::<u16>::new_with_storaget(
        YaccKind::Original(YaccOriginalActionKind::NoAction),
        GRM,
    )
    .unwrap();
    let (_, stable) = from_yacc(&grm, Minimiser::Pager).unwrap();
    assert!(stable.conflicts().is_none());
    let a = u32::from(grm.token_idx("a").unwrap()) as u16;
    let b = u32::from(grm.token_idx("b").unwrap()) as u16;
    let mut lexemes = Vec::new();
    for i in 0..n {
        lexemes.push(Lx::new(a, i * 2, 1));
    }
    if with_error {
        lexemes.push(Lx::new(b, n * 2, 1));
    }
    let lexer = VL { lexemes };
    let (v, errs): (Option<()>, Vec<LexParseError<u16, LT>>) =
        RTParserBuilder::new(&grm, &stable).parse_map(&lexer, &|_| (), &|_, _| ());
    let nrep = match errs.first() {
        Some(LexParseError::ParseError(e)) => e.repairs().len(),
        _ => 0,
    };
    (v.is_some(), errs.len(), nrep)
}

fn on_8mib_thread<T: Send + 'static>(f: impl FnOnce() -> T + Send + 'static) -> T {
    std::thread::Builder::new()
        .stack_size(8 << 20)
        .spawn(f)
        .unwrap()
        .join()
        .unwrap()
}

#[test]
fn deep_stack_recovery_returns() {
    if std::env::var("AUDIT_DEMO_CHILD").is_ok() {
        // Sanity: recovery of the same error works when the nesting is shallow ...
        let (v, nerrs, nrep) = on_8mib_thread(|| run(100, true));
        assert!(v && nerrs == 1 && nrep >= 1);
        println!("SHALLOW-ERROR-OK");
        // ... and the same number of lexemes parses fine when there is no error.
        let (v, nerrs, _) = on_8mib_thread(|| run(N, false));
        assert!(v && nerrs == 0);
        println!("DEEP-NOERROR-OK");
        let (v, nerrs, nrep) = on_8mib_thread(|| run(N, true));
        println!("DEEP-ERROR-RETURNED value={} errors={} repairs={}", v, nerrs, nrep);
        return;
    }
    let out = std::process::Command::new(std::env::current_exe().unwrap())
        .args(["--exact", "deep_stack_recovery_returns", "--nocapture", "--test-threads=1"])
        .env("AUDIT_DEMO_CHILD", "1")
        .output()
        .unwrap();
    let stdout = String::from_utf8_lossy(&out.stdout).to_string();
    let stderr = String::from_utf8_lossy(&out.stderr).to_string();
    assert!(stdout.contains("SHALLOW-ERROR-OK"), "{}\n{}", stdout, stderr);
    assert!(stdout.contains("DEEP-NOERROR-OK"), "{}\n{}", stdout, stderr);
    // C07: "For every grammar in which no rule can derive just itself, a parse always returns"
    // (quantifier: all token sequences, including errors at end of input).
    assert!(
        stdout.contains("DEEP-ERROR-RETURNED") && out.status.success(),
        "C07 violated: `a parse always returns` -- parse_map on {} x 'a' + 'b' did not return a \
         (value, errors) pair; the process ended with {:?}\n--- child stdout:\n{}\n--- child stderr:\n{}",
        N,
        out.status,
        stdout,
        stderr
    );
}
