//! C05 audit demo 1: error recovery aborts the whole process (stack overflow) when the parse
//! stack is deep at the error point, instead of reporting a repair and carrying on.
//!
//! Grammar (conflict free):   S: 'a' S 'b' | 'c';
//! Input: a^N c c b^N   (one surplus 'c'; the only sensible repair is `Delete c`).
//!
//! Property C05: "For each parse error reported with repair sequences, applying any one of them
//! at the error point [...] lets a plain LR parse continue [...]. The value and later errors the
//! parser goes on to produce are exactly those of parsing the input with the first sequence of
//! each error applied". Quantifier: all grammars x all erroneous token sequences.
//!
//! With N = 2_000 the parser reports [[Delete c]] and returns a value. With N = 200_000 (a parse
//! stack of 200_001 states at the error point) the very same parse kills the process with
//! "thread ... has overflowed its stack": `CPCTPlus::recover` copies the parse stack into a
//! `cactus::Cactus` (an `Rc` linked list without an iterative `Drop`), and freeing that list
//! recurses once per stack entry. The plain LR loop (RecoveryKind::None) has no problem with the
//! same input, and the repaired input parses fine, so the reference value exists.
//!
//! Because a stack overflow cannot be caught, the parse is run in a child process (this same test
//! binary, re-executed with AUDIT_DEMO1_CHILD set).

use std::{error::Error, fmt, process::Command};

use cfgrammar::{
    Span,
    yacc::{YaccGrammar, YaccKind, YaccOriginalActionKind},
};
use lrpar::{
    LexError, LexParseError, Lexeme, Lexer, LexerTypes, NonStreamingLexer, ParseRepair,
    RTParserBuilder, RecoveryKind,
};
use lrtable::{Minimiser, from_yacc};

#[derive(Clone, Copy, Debug, Eq, Hash, PartialEq)]
struct Lm {
    start: usize,
    len: usize,
    faulty: bool,
    tok_id: u32,
}
impl Lexeme<u32> for Lm {
    fn new(tok_id: u32, start: usize, len: usize) -> Self {
        Lm { start, len, faulty: false, tok_id }
    }
    fn new_faulty(tok_id: u32, start: usize, len: usize) -> Self {
        Lm { start, len, faulty: true, tok_id }
    }
    fn tok_id(&self) -> u32 {
        self.tok_id
    }
    fn span(&self) -> Span {
        Span::new(self.start, self.start + self.len)
    }
    fn faulty(&self) -> bool {
        self.faulty
    }
}
impl fmt::Display for Lm {
    fn fmt(&self, f: &mut fmt::Formatter) -> fmt::Result {
        write!(f, "{:?}", self)
    }
}
#[derive(Debug)]
struct LE;
impl fmt::Display for LE {
    fn fmt(&self, _: &mut fmt::Formatter) -> fmt::Result {
        Ok(())
    }
}
impl Error for LE {}
impl LexError for LE {
    fn span(&self) -> Span {
        Span::new(0, 0)
    }
}
#[derive(Debug, Clone)]
struct LT;
impl LexerTypes for LT {
    type LexemeT = Lm;
    type StorageT = u32;
    type LexErrorT = LE;
}
struct Lx {
    lexemes: Vec<Lm>,
}
impl Lexer<LT> for Lx {
    fn iter<'a>(&'a self) -> Box<dyn Iterator<Item = Result<Lm, LE>> + 'a> {
        Box::new(self.lexemes.iter().map(|x| Ok(*x)))
    }
}
impl<'input> NonStreamingLexer<'input, LT> for Lx {
    fn span_str(&self, _: Span) -> &'input str {
        ""
    }
    fn span_lines_str(&self, _: Span) -> &'input str {
        ""
    }
    fn line_col(&self, _: Span) -> ((usize, usize), (usize, usize)) {
        ((1, 1), (1, 1))
    }
}

const GRM: &str = "%start S\n%%\nS: 'a' S 'b' | 'c';\n";

/// a^n c c b^n, and the index of the surplus 'c'.
fn input(grm: &YaccGrammar<u32>, n: usize) -> (Vec<Lm>, usize) {
    let a = u32::from(grm.token_idx("a").unwrap());
    let b = u32::from(grm.token_idx("b").unwrap());
    let c = u32::from(grm.token_idx("c").unwrap());
    let mut v = Vec::with_capacity(2 * n + 2);
    for i in 0..n {
        v.push(Lm::new(a, i, 1));
    }
    v.push(Lm::new(c, n, 1));
    v.push(Lm::new(c, n + 1, 1));
    for i in 0..n {
        v.push(Lm::new(b, n + 2 + i, 1));
    }
    (v, n + 1)
}

/// Parse a^n c c b^n with CPCT+ and check the C05 clauses on the outcome. Returns normally iff
/// the outcome is as the property demands.
fn parse_and_check(n: usize) {
    let grm = YaccGrammar::<u32>::new_with_storaget(
        YaccKind::Original(YaccOriginalActionKind::NoAction),
        GRM,
    )
    .unwrap();
    let (_, stable) = from_yacc(&grm, Minimiser::Pager).unwrap();
    assert!(stable.conflicts().is_none());
    let (lexemes, bad) = input(&grm, n);

    // Reference 1: the plain LR loop copes with this input and reports the error at the second c.
    let lexer = Lx { lexemes: lexemes.clone() };
    let (r, errs) = RTParserBuilder::<u32, LT>::new(&grm, &stable)
        .recoverer(RecoveryKind::None)
        .parse_map(&lexer, &|_| 1usize, &|_, ns: Vec<usize>| ns.iter().sum());
    assert!(r.is_none());
    assert_eq!(errs.len(), 1);
    // Reference 2: the input with `Delete c` applied parses to a value with 2n+1 leaves.
    let mut repaired = lexemes.clone();
    repaired.remove(bad);
    let lexer = Lx { lexemes: repaired };
    let (r, errs) = RTParserBuilder::<u32, LT>::new(&grm, &stable)
        .recoverer(RecoveryKind::None)
        .parse_map(&lexer, &|_| 1usize, &|_, ns: Vec<usize>| ns.iter().sum());
    assert!(errs.is_empty());
    let reference_value = r.unwrap();
    assert_eq!(reference_value, 2 * n + 1);

    // Under test: CPCT+.
    let lexer = Lx { lexemes: lexemes.clone() };
    let (r, errs) = RTParserBuilder::<u32, LT>::new(&grm, &stable)
        .recoverer(RecoveryKind::CPCTPlus)
        .parse_map(&lexer, &|_| 1usize, &|_, ns: Vec<usize>| ns.iter().sum());
    assert_eq!(errs.len(), 1);
    let LexParseError::ParseError(pe) = &errs[0] else { panic!() };
    assert_eq!(*pe.lexeme(), lexemes[bad]);
    // An empty list would only mean the time budget ran out; this search needs a handful of
    // nodes, but do not let the demo depend on it.
    if pe.repairs().is_empty() {
        println!("AUDIT_DEMO1_CHILD_DONE (no repairs: budget)");
        return;
    }
    assert_eq!(pe.repairs()[0], vec![ParseRepair::Delete(lexemes[bad])]);
    // "The value [...] the parser goes on to produce [is] exactly [that] of parsing the input
    // with the first sequence of each error applied"
    assert_eq!(r, Some(reference_value));
    println!("AUDIT_DEMO1_CHILD_DONE");
}

fn child_main() {
    let n: usize = std::env::var("AUDIT_DEMO1_CHILD").unwrap().parse().unwrap();
    // 8 MiB: the default size of a main thread's stack on Linux.
    std::thread::Builder::new()
        .stack_size(8 * 1024 * 1024)
        .spawn(move || parse_and_check(n))
        .unwrap()
        .join()
        .unwrap();
}

fn run_child(n: usize) -> (bool, String) {
    let out = Command::new(std::env::current_exe().unwrap())
        .args(["deep_parse_stack_recovery", "--exact", "--nocapture", "--test-threads=1"])
        .env("AUDIT_DEMO1_CHILD", n.to_string())
        .output()
        .unwrap();
    let so = String::from_utf8_lossy(&out.stdout).to_string();
    let se = String::from_utf8_lossy(&out.stderr).to_string();
    (
        out.status.success() && so.contains("AUDIT_DEMO1_CHILD_DONE"),
        format!("status: {:?}\nstderr tail: {}", out.status, &se[se.len().saturating_sub(300)..]),
    )
}

#[test]
fn deep_parse_stack_recovery() {
    if std::env::var("AUDIT_DEMO1_CHILD").is_ok() {
        child_main();
        return;
    }
    // Shallow stack: recovery behaves as C05 demands.
    let (ok, info) = run_child(2_000);
    assert!(ok, "control run (N = 2000) failed: {}", info);
    // Deep stack: the same error, the same repair -- but the process dies.
    let (ok, info) = run_child(200_000);
    assert!(
        ok,
        "C05 violated: for the conflict-free grammar S: 'a' S 'b' | 'c'; and the erroneous input \
         a^200000 c c b^200000 the parser did not go on to produce the value of the repaired \
         input (Delete c) -- error recovery aborted the process instead.\n{}",
        info
    );
}
