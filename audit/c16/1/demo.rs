// C16 audit demo 1: a state whose every action was removed by %nonassoc.
//
// Clause: "a state is flagged reduce-only exactly when all its non-error actions reduce one and
// the same (rule, length)".
//
// In the grammar below the state reached by `E '~' E` contains only
//     [E -> E '~' E . , {'~'}]   and   [E -> E . '~' E , {'~'}]
// so its single candidate cell (on '~') is a shift/reduce conflict between a %nonassoc token and
// a production of the same %nonassoc level: the cell is turned into an error. The state thus has
// NO non-error action at all. Every one of its (zero) non-error actions reduces one and the same
// (rule, length) -- there is no shift, no accept and no second (rule, length) pair -- so by the
// clause as written (and by the doc comment of `reduce_only_state`: "1) only contain reduce (and
// error) actions 2) do those reductions all reduce to the same production?") the state has to be
// flagged; `StateTable::new` requires *exactly one* distinct reduction (`distinct_reduces == 1`)
// and leaves it unflagged.

use std::collections::BTreeSet;

use cfgrammar::{
    Symbol,
    yacc::{YaccGrammar, YaccKind, YaccOriginalActionKind},
};
use lrtable::{Action, Minimiser, from_yacc};

#[test]
fn reduce_only_flag_on_state_emptied_by_nonassoc() {
    let src = "
%start S
%nonassoc '~'
%%
S: E '~' ;
E: E '~' E | 'id' ;
";
    let grm = YaccGrammar::new(YaccKind::Original(YaccOriginalActionKind::NoAction), src).unwrap();
    let (sg, st) = from_yacc(&grm, Minimiser::Pager).unwrap();

    // Walk to the state in question: start --E--> --'~'--> --E-->
    let e = Symbol::Rule(grm.rule_idx("E").unwrap());
    let tilde = grm.token_idx("~").unwrap();
    let s1 = sg.edge(sg.start_state(), e).unwrap();
    let s2 = sg.edge(s1, Symbol::Token(tilde)).unwrap();
    let s3 = sg.edge(s2, e).unwrap();

    // Sanity: the %nonassoc resolution removed the only candidate action of s3.
    assert_eq!(st.action(s3, tilde), Action::Error);
    assert_eq!(st.state_actions(s3).count(), 0);

    // Check the clause for every state of the table, reading it literally.
    let mut bad = Vec::new();
    for stidx in sg.iter_stidxs() {
        let mut all_reduce = true;
        let mut pairs = BTreeSet::new();
        for tidx in grm.iter_tidxs() {
            match st.action(stidx, tidx) {
                Action::Error => (),
                Action::Reduce(pidx) => {
                    pairs.insert((usize::from(grm.prod_to_rule(pidx)), grm.prod(pidx).len()));
                }
                Action::Shift(_) | Action::Accept => all_reduce = false,
            }
        }
        // "all its non-error actions reduce one and the same (rule, length)"
        let all_nonerror_actions_reduce_the_same_pair = all_reduce && pairs.len() <= 1;
        if st.reduce_only_state(stidx) != all_nonerror_actions_reduce_the_same_pair {
            bad.push((usize::from(stidx), st.reduce_only_state(stidx)));
        }
    }
    assert!(
        bad.is_empty(),
        "C16: 'a state is flagged reduce-only exactly when all its non-error actions reduce one \
         and the same (rule, length)' is violated in states (stidx, flag) {:?}; state {} has no \
         non-error action at all (its only cell was removed by %nonassoc) yet is not flagged",
        bad,
        usize::from(s3)
    );
}
