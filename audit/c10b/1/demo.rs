// C10: "Parsing the textual form of any grammar - whatever its layout ... Original/Grmtools/Eco
// kinds - yields a grammar with exactly the source's rules ...".
//
// The same grammar, with the same `%grmtools` header, must be accepted whatever blanks are put
// between the header's lexemes. Blanks are accepted between all of them (before/after `{`, `:`,
// `,`, `::`, before `(`, before `)`, inside arrays) except directly after the `(` of a constructor
// value such as `Original(NoAction)`.
use cfgrammar::yacc::YaccGrammar;
use std::str::FromStr;

fn rules_of(src: &str) -> Result<Vec<String>, String> {
    match YaccGrammar::<u32>::from_str(src) {
        Ok(g) => Ok(g
            .iter_rules()
            .map(|r| g.rule_name_str(r).to_string())
            .collect()),
        Err(es) => Err(es
            .iter()
            .map(|e| e.to_string())
            .collect::<Vec<_>>()
            .join("; ")),
    }
}

#[test]
fn header_layout_does_not_matter() {
    let body = "\n%token a\n%%\nS: a | T;\nT: 'b';\n";
    // Reference layout: accepted.
    let reference = rules_of(&format!("%grmtools{{yacckind: Original(NoAction)}}{body}"))
        .expect("reference layout must parse");
    assert_eq!(reference, vec!["^", "S", "T"]);

    // Layouts that only add blanks/newlines between lexemes of the header.
    let layouts = [
        "%grmtools { yacckind : Original (NoAction ) , }",
        "%grmtools{yacckind: Original(YaccOriginalActionKind :: NoAction)}",
        "%grmtools{yacckind: YaccKind :: Original(NoAction)}",
        // blanks directly after the opening parenthesis:
        "%grmtools{yacckind: Original( NoAction)}",
        "%grmtools{yacckind: Original( NoAction )}",
        "%grmtools{\n    yacckind: Original(\n        YaccOriginalActionKind::NoAction\n    ),\n}",
    ];
    let mut failures = Vec::new();
    for l in layouts {
        match rules_of(&format!("{l}{body}")) {
            Ok(r) if r == reference => (),
            Ok(r) => failures.push(format!("{l:?}: different rules {r:?}")),
            Err(e) => failures.push(format!("{l:?}: rejected: {e}")),
        }
    }
    assert!(
        failures.is_empty(),
        "the grammar object depends on the layout of the source:\n  {}",
        failures.join("\n  ")
    );
}
