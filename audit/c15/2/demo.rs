// Property C15: "Building from identical grammar ... sources with identical settings gives, in
// every process and on every run, the same ..." result.
//
// When a grammar has several `%epp` declarations for unknown tokens, the (single) error that the
// build reports is whichever entry a randomly seeded HashMap yields first
// (cfgrammar/src/lib/yacc/ast.rs: GrammarAST::complete_and_validate iterates `self.epp`), so the
// outcome of building the same source differs from run to run.
use std::collections::BTreeSet;

use cfgrammar::yacc::{YaccGrammar, YaccKind, YaccOriginalActionKind};

const GRM: &str = "%start S
%epp U1 'one'
%epp U2 'two'
%epp U3 'three'
%epp U4 'four'
%epp U5 'five'
%epp U6 'six'
%%
S: 'a';
";

#[test]
fn build_outcome_is_a_function_of_the_source() {
    let mut outcomes = BTreeSet::new();
    for _ in 0..64 {
        let r = YaccGrammar::<u32>::new(
            YaccKind::Original(YaccOriginalActionKind::GenericParseTree),
            GRM,
        );
        let errs = r.err().expect("unknown %epp tokens must be rejected");
        outcomes.insert(
            errs.iter()
                .map(|e| format!("{} at {:?}", e, e))
                .collect::<Vec<_>>()
                .join("; "),
        );
    }
    assert_eq!(
        outcomes.len(),
        1,
        "C15 'identical sources ... in every process and on every run, the same ...': building the same grammar text gave {} different outcomes: {:#?}",
        outcomes.len(),
        outcomes
    );
}
