// Property C15: "Building from identical grammar and lexer sources with identical settings gives,
// in every process and on every run, ... byte-identical generated modules apart from the embedded
// build timestamp" (mechanism: "rebuild cache keyed on the token id map").
//
// CTParserBuilder decides whether to regenerate from (a) the settings + token id map recorded in
// the trailing cache comment and (b) `mtime(output) > mtime(grammar)`. The grammar *text* is not
// part of the key. If the grammar file is replaced by one with the same tokens whose mtime is
// older than the existing output (`mv other.y g.y`, `cp -p`, `rsync -t`, restoring a backup,
// unpacking an archive over the source tree), the build silently keeps the module generated from
// the previous text: two builds of the *same* source with the *same* settings produce different
// modules, depending only on what happened to be in the output directory.
use std::{
    env, fs,
    path::PathBuf,
    process::Command,
    time::{Duration, SystemTime},
};

use cfgrammar::yacc::YaccKind;
use lrlex::DefaultLexerTypes;
use lrpar::CTParserBuilder;

const V1: &str = "%start S\n%%\nS -> u32: 'a' 'b' { 1111 };\n";
const V2: &str = "%start S\n%%\nS -> u32: 'a' 'b' 'b' { 2222 };\n";

fn dir() -> PathBuf {
    let mut d = PathBuf::from(env!("CARGO_MANIFEST_DIR"));
    d.push("../target/audit_demo_3");
    d
}

fn build(out: &str) {
    let d = dir();
    CTParserBuilder::<DefaultLexerTypes<u32>>::new()
        .yacckind(YaccKind::Grmtools)
        .grammar_path(d.join("g.y"))
        .output_path(d.join(out))
        .mod_name("g_y")
        .build()
        .unwrap();
}

fn child(phase: &str) {
    let st = Command::new(env::current_exe().unwrap())
        .env("AUDIT_DEMO_3_PHASE", phase)
        .args(["--exact", "stale_output_survives", "--nocapture"])
        .status()
        .unwrap();
    assert!(st.success());
}

#[test]
fn stale_output_survives() {
    match env::var("AUDIT_DEMO_3_PHASE").as_deref() {
        Ok("incremental") => return build("incr.rs"),
        Ok("clean") => return build("clean.rs"),
        _ => (),
    }
    let d = dir();
    fs::remove_dir_all(&d).ok();
    fs::create_dir_all(&d).unwrap();

    // Build 1: version 1 of the grammar.
    fs::write(d.join("g.y"), V1).unwrap();
    child("incremental");
    let out_v1 = fs::read_to_string(d.join("incr.rs")).unwrap();
    assert!(out_v1.contains("1111"));

    // The grammar file is replaced by version 2 (same tokens), which was last edited before
    // build 1 ran (as after `mv g_v2.y g.y` or `cp -p`).
    fs::write(d.join("g.y"), V2).unwrap();
    let out_mtime = fs::metadata(d.join("incr.rs")).unwrap().modified().unwrap();
    fs::File::options()
        .write(true)
        .open(d.join("g.y"))
        .unwrap()
        .set_modified(out_mtime - Duration::from_secs(3600))
        .unwrap();
    assert!(SystemTime::now() > out_mtime);

    // Build 2 (output directory has a history) and build 3 (fresh output file): the same grammar
    // text, the same grammar path, the same settings, the same lrpar.
    child("incremental");
    child("clean");
    let incr = fs::read_to_string(d.join("incr.rs")).unwrap();
    let clean = fs::read_to_string(d.join("clean.rs")).unwrap();
    assert!(clean.contains("2222") && !clean.contains("1111"));
    assert!(
        incr == clean,
        "C15 'identical sources with identical settings give byte-identical generated modules': \
         the module built from grammar v2 still contains v1's code (has 1111: {}, has 2222: {})",
        incr.contains("1111"),
        incr.contains("2222")
    );
}
