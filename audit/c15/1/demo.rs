// Property C15: "calling a generated parser from several threads at once gives each the
// sequential result" / "Building from identical ... sources ... gives, in every process and on
// every run, the same ..." -- the result of a parse must be a function of (grammar, lexer, input).
//
// With CPCT+ recovery, when several minimal repair sequences are ranked equally, the one that is
// *applied to the parse* (rnk_rprs[0]) is picked by the iteration order of a randomly seeded
// HashSet (lrpar/src/lib/cpctplus.rs: simplify_repairs), so the parse tree, the value computed by
// the actions and the order of the reported repairs differ from call to call, from thread to
// thread and from process to process.
use std::collections::BTreeSet;

use cfgrammar::yacc::{YaccGrammar, YaccKind, YaccOriginalActionKind};
use lrlex::{DefaultLexerTypes, LRNonStreamingLexerDef, LexerDef};
use lrpar::{LexParseError, Node, ParseRepair, RTParserBuilder};
use lrtable::{Minimiser, from_yacc};

const GRM: &str = "
%start S
%%
S: 'A' X 'C';
X: 'B' | 'D' | 'E' | 'F';
";

const LEX: &str = "%%
a 'A'
b 'B'
c 'C'
d 'D'
e 'E'
f 'F'
[ \\n] ;
";

#[allow(deprecated)]
fn pp(grm: &YaccGrammar<u32>, n: &Node<lrlex::DefaultLexeme<u32>, u32>, out: &mut String) {
    match n {
        Node::Term { lexeme } => {
            use lrpar::Lexeme;
            out.push_str(grm.token_name(cfgrammar::TIdx(lexeme.tok_id())).unwrap());
            out.push(' ');
        }
        Node::Nonterm { ridx, nodes } => {
            out.push_str(grm.rule_name_str(*ridx));
            out.push('(');
            for c in nodes {
                pp(grm, c, out);
            }
            out.push(')');
        }
    }
}

/// One complete, independent "sequential" parse of `a c`: returns the parse tree and the list of
/// repair sequences in the order they are reported.
#[allow(deprecated)]
fn one_parse() -> (String, Vec<String>) {
    let grm = YaccGrammar::<u32>::new(
        YaccKind::Original(YaccOriginalActionKind::GenericParseTree),
        GRM,
    )
    .unwrap();
    let (_, stable) = from_yacc(&grm, Minimiser::Pager).unwrap();
    let mut lexerdef = LRNonStreamingLexerDef::<DefaultLexerTypes<u32>>::from_str(LEX).unwrap();
    let ids = grm
        .tokens_map()
        .iter()
        .map(|(&n, &i)| (n, i.as_storaget()))
        .collect();
    lexerdef.set_rule_ids(&ids);
    let lexer = lexerdef.lexer("a c");
    let pb = RTParserBuilder::new(&grm, &stable);
    let (tree, errs) = pb.parse_generictree(&lexer);
    let mut s = String::new();
    pp(&grm, &tree.unwrap(), &mut s);
    assert_eq!(errs.len(), 1);
    let mut rs = Vec::new();
    match &errs[0] {
        LexParseError::ParseError(e) => {
            for r in e.repairs() {
                let mut o = String::new();
                for x in r {
                    match x {
                        ParseRepair::Insert(t) => {
                            o.push_str(&format!("Insert {} ", grm.token_name(*t).unwrap()))
                        }
                        ParseRepair::Delete(_) => o.push_str("Delete "),
                        ParseRepair::Shift(_) => o.push_str("Shift "),
                    }
                }
                rs.push(o);
            }
        }
        _ => panic!(),
    }
    (s, rs)
}

#[test]
fn recovery_result_is_a_function_of_the_input() {
    let (seq_tree, seq_repairs) = one_parse();
    // Same grammar, same lexer, same input, several threads at once.
    let hs: Vec<_> = (0..32).map(|_| std::thread::spawn(one_parse)).collect();
    let mut trees = BTreeSet::new();
    let mut orders = BTreeSet::new();
    trees.insert(seq_tree.clone());
    orders.insert(seq_repairs.clone());
    for h in hs {
        let (t, r) = h.join().unwrap();
        trees.insert(t);
        orders.insert(r);
    }
    assert_eq!(
        trees.len(),
        1,
        "C15 'several threads at once gives each the sequential result': the same input gave {} different parse trees: {:?}",
        trees.len(),
        trees
    );
    assert_eq!(
        orders.len(),
        1,
        "the same input gave differently ordered repair lists: {:?}",
        orders
    );
}
