// C20: "... or the narrower width is refused at construction with the documented 'not big
// enough' panic".
//
// A grammar whose state graph has exactly MAX-1 (254 for u8) or MAX (255 for u8) states is
// accepted by `YaccGrammar::<u8>::new_with_storaget`, accepted by u16/u32 `from_yacc`, but
// `lrtable::from_yacc::<u8>` refuses it with a bare `assert!` failure
//   254 states: "assertion failed: sg.all_states_len().as_storaget() < StorageT::max_value() - StorageT::one()"
//   255 states: "assertion failed: states.len() < num_traits::cast(StorageT::max_value()).unwrap()"
// instead of the documented "StorageT is not big enough to store this stategraph." panic
// (which is what one gets from 256 states on).

use std::{
    fmt::Write,
    hash::Hash,
    panic::{AssertUnwindSafe, catch_unwind},
};

use cfgrammar::yacc::{YaccGrammar, YaccKind, YaccOriginalActionKind};
use lrtable::{Minimiser, from_yacc};
use num_traits::{AsPrimitive, PrimInt, Unsigned};

/// `S: 't0' 't1' ... ;` with `k` symbols: the state graph has exactly `k + 2` states.
fn long_prod(k: usize) -> String {
    let mut s = String::from("%start S\n%%\nS:");
    for i in 0..k {
        write!(s, " 't{}'", i % 7).unwrap();
    }
    s.push_str(";\n");
    s
}

/// Ok(number of states) or Err(panic message).
fn states<T: 'static + Hash + PrimInt + Unsigned + std::fmt::Debug>(src: &str) -> Result<usize, String>
where
    usize: AsPrimitive<T>,
{
    catch_unwind(AssertUnwindSafe(|| {
        let grm = YaccGrammar::<T>::new_with_storaget(
            YaccKind::Original(YaccOriginalActionKind::GenericParseTree),
            src,
        )
        .unwrap();
        let (sg, _st) = from_yacc(&grm, Minimiser::Pager).unwrap();
        usize::from(sg.all_states_len())
    }))
    .map_err(|e| {
        e.downcast_ref::<String>()
            .cloned()
            .or_else(|| e.downcast_ref::<&str>().map(|s| s.to_string()))
            .unwrap_or_default()
    })
}

fn check(k: usize) {
    let src = long_prod(k);
    // The wider widths accept the grammar and agree on the number of states.
    assert_eq!(states::<u16>(&src), Ok(k + 2));
    assert_eq!(states::<u32>(&src), Ok(k + 2));
    // u8 must either give the same result or refuse with the documented panic.
    match states::<u8>(&src) {
        Ok(n) => assert_eq!(n, k + 2, "u8 accepted but with a different number of states"),
        Err(msg) => assert!(
            msg.contains("not big enough"),
            "C20: a width that cannot hold the {} states must be refused with the documented \
             'StorageT is not big enough ...' panic, but from_yacc::<u8> panicked with: {msg:?}",
            k + 2
        ),
    }
}

#[test]
fn u8_253_states_accepted() {
    check(251); // control: 253 states are fine in u8
}

#[test]
fn u8_256_states_documented_panic() {
    check(254); // control: 256 states get the documented panic
}

#[test]
fn u8_254_states() {
    check(252);
}

#[test]
fn u8_255_states() {
    check(253);
}
