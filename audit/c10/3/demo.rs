//! C10 "whatever its layout, comments ... yields a grammar with exactly the source's ... action
//! types": action types are cut out of the source as raw text (`parse_to_eol` for `%actiontype`,
//! `parse_to_single_colon` for the `-> Type :` of a Grmtools rule) without the white space /
//! comment handling every other part of the parser gets from `parse_ws`. Trailing blanks and
//! comments therefore become part of the action type, and a ':' inside such a comment ends the
//! type early so that the grammar is rejected.

use cfgrammar::yacc::{YaccGrammar, YaccKind, YaccOriginalActionKind};

const ORIG: YaccKind = YaccKind::Original(YaccOriginalActionKind::UserAction);

fn at(kind: YaccKind, src: &str) -> Option<String> {
    let grm = YaccGrammar::new(kind, src)
        .unwrap_or_else(|e| panic!("legal grammar {src:?} was rejected: {e:?}"));
    grm.actiontype(grm.rule_idx("S").unwrap()).clone()
}

#[test]
fn actiontype_baseline() {
    assert_eq!(at(ORIG, "%actiontype u32\n%%\nS: 'a' { 1 };").as_deref(), Some("u32"));
    assert_eq!(at(YaccKind::Grmtools, "%%\nS -> u32 : 'a' { 1 };").as_deref(), Some("u32"));
}

#[test]
fn actiontype_trailing_blanks() {
    // Same grammar, two blanks before the end of the line.
    assert_eq!(at(ORIG, "%actiontype u32  \n%%\nS: 'a' { 1 };").as_deref(), Some("u32"));
}

#[test]
fn actiontype_trailing_comment() {
    // Same grammar, a comment after the declaration (accepted after every other declaration).
    assert_eq!(
        at(ORIG, "%actiontype u32 // the value\n%%\nS: 'a' { 1 };").as_deref(),
        Some("u32")
    );
    assert_eq!(
        at(ORIG, "%actiontype u32 /* the value */\n%%\nS: 'a' { 1 };").as_deref(),
        Some("u32")
    );
}

#[test]
fn grmtools_rule_type_followed_by_comment() {
    // A comment between the rule's name and '->' is skipped, one between the type and ':' is not.
    assert_eq!(
        at(YaccKind::Grmtools, "%%\nS /* c */ -> /* c */ u32 : 'a' { 1 };").as_deref(),
        Some("u32")
    );
    assert_eq!(
        at(YaccKind::Grmtools, "%%\nS -> u32 /* the value */ : 'a' { 1 };").as_deref(),
        Some("u32")
    );
}

#[test]
fn grmtools_rule_type_followed_by_comment_with_colon() {
    assert_eq!(
        at(YaccKind::Grmtools, "%%\nS -> u32 // note: the value\n : 'a' { 1 };").as_deref(),
        Some("u32")
    );
}
