//! C10 "yields a grammar with exactly the source's rules ... symbols, start rule":
//! the rule-name syntax (`parse_name`, RE_NAME = `[a-zA-Z_.][a-zA-Z0-9_.]*`, used for the left
//! hand side of a rule, for `%start` and for `%expect-unused`) admits '.' as in POSIX Yacc, but a
//! symbol inside a production is read with `parse_token`, whose unquoted alternative is
//! `[a-zA-Z_][a-zA-Z_0-9]*`. A rule whose name contains a dot can therefore be defined and made
//! the start rule, but any reference to it stops at the dot and the grammar is rejected.

use cfgrammar::{
    Symbol,
    yacc::{YaccGrammar, YaccKind, YaccOriginalActionKind},
};

#[test]
fn dotted_rule_name_alone_is_accepted() {
    // The definition site accepts the name (so the name is legal as far as the parser goes).
    let src = "%start expr.list\n%%\nexpr.list: 'a';\n";
    let grm = YaccGrammar::new(
        YaccKind::Original(YaccOriginalActionKind::NoAction),
        src,
    )
    .unwrap();
    assert!(grm.rule_idx("expr.list").is_some());
}

#[test]
fn dotted_rule_name_can_be_referenced() {
    let src = "%start S\n%%\nS: expr.list 'b';\nexpr.list: 'a' | expr.list 'a';\n";
    let grm = YaccGrammar::new(
        YaccKind::Original(YaccOriginalActionKind::NoAction),
        src,
    )
    .unwrap_or_else(|e| panic!("a grammar that references the rule it defines was rejected: {e:?}"));
    let s = grm.rule_idx("S").unwrap();
    let el = grm.rule_idx("expr.list").unwrap();
    assert_eq!(grm.prod(grm.rule_to_prods(s)[0])[0], Symbol::Rule(el));
}
