//! C10 "whatever its ... quoting style or declaration order - yields a grammar with exactly the
//! source's ... symbols, ... token set, per-token precedence and associativity": in Yacc a name
//! listed after `%left` / `%right` / `%nonassoc` is thereby declared as a token (that is how
//! operator tokens are usually declared), exactly like a name listed after `%token`. cfgrammar
//! records the precedence of such a name but does not make it a token: written without quotes in
//! a production it is taken for a rule and the grammar is rejected with "Unknown reference to
//! rule", and when it is not otherwise used the token does not exist in the grammar at all.

use cfgrammar::{
    Symbol,
    yacc::{AssocKind, YaccGrammar, YaccKind, YaccOriginalActionKind},
};

const KIND: YaccKind = YaccKind::Original(YaccOriginalActionKind::NoAction);

#[test]
fn baseline_quoted_or_also_in_token() {
    let grm = YaccGrammar::new(KIND, "%token NUM\n%left 'PLUS'\n%%\nE: E 'PLUS' E | NUM;").unwrap();
    assert_eq!(
        grm.token_precedence(grm.token_idx("PLUS").unwrap()).unwrap().kind,
        AssocKind::Left
    );
    YaccGrammar::new(KIND, "%token NUM PLUS\n%left PLUS\n%%\nE: E PLUS E | NUM;").unwrap();
}

#[test]
fn name_declared_by_left_is_a_token() {
    let src = "%token NUM\n%left PLUS\n%%\nE: E PLUS E | NUM;";
    let grm = YaccGrammar::new(KIND, src)
        .unwrap_or_else(|e| panic!("legal Yacc grammar rejected: {e:?}"));
    let plus = grm.token_idx("PLUS").expect("PLUS is a token");
    assert_eq!(grm.token_precedence(plus).unwrap().kind, AssocKind::Left);
    let e = grm.rule_idx("E").unwrap();
    assert_eq!(grm.prod(grm.rule_to_prods(e)[0])[1], Symbol::Token(plus));
}

#[test]
fn unused_name_declared_by_left_is_in_the_token_set() {
    // `%token UNUSED` puts UNUSED into the token set; `%left UNUSED` must do the same.
    let grm = YaccGrammar::new(KIND, "%token A\n%left UMINUS\n%%\nS: A;").unwrap();
    assert!(grm.token_idx("A").is_some());
    assert!(
        grm.token_idx("UMINUS").is_some(),
        "a token declared with %left is missing from the grammar's token set"
    );
}
