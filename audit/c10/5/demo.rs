//! C10 "whatever its layout, comments ... or declaration order": everywhere else in a grammar
//! file `//` and `/* */` comments count as white space, but the `%grmtools{..}` section, which
//! `YaccParser::parse` / `ASTWithValidityInfo::from_str` look for first, is only found if nothing
//! but white space precedes it (header.rs: `lookahead_is(MAGIC, self.parse_ws(0))`, where
//! `parse_ws` knows no comments), and its body cannot contain comments either. A grammar file that
//! starts with a (licence, description) comment is therefore rejected.

use cfgrammar::yacc::{YaccGrammar, YaccKind};
use std::str::FromStr;

const BODY: &str = "%start S\n%%\nS -> u32: 'a' { 1 } ;\n";

#[test]
fn baseline() {
    let src = format!("%grmtools{{yacckind: Grmtools}}\n{BODY}");
    YaccGrammar::<u32>::from_str(&src).unwrap();
    YaccGrammar::new(YaccKind::Grmtools, &src).unwrap();
    // A comment right after the section is fine.
    let src = format!("%grmtools{{yacckind: Grmtools}} // a comment\n{BODY}");
    YaccGrammar::<u32>::from_str(&src).unwrap();
}

#[test]
fn comment_before_grmtools_section_from_str() {
    let src = format!("// A grammar for the letter a.\n%grmtools{{yacckind: Grmtools}}\n{BODY}");
    let res = YaccGrammar::<u32>::from_str(&src);
    assert!(res.is_ok(), "legal grammar rejected: {:?}", res.err());
}

#[test]
fn comment_before_grmtools_section_new() {
    let src = format!("/* A grammar for the letter a. */\n%grmtools{{yacckind: Grmtools}}\n{BODY}");
    let res = YaccGrammar::new(YaccKind::Grmtools, &src);
    assert!(res.is_ok(), "legal grammar rejected: {:?}", res.err());
}

#[test]
fn comment_inside_grmtools_section() {
    let src = format!("%grmtools{{\n  yacckind: Grmtools, // the usual one\n}}\n{BODY}");
    let res = YaccGrammar::<u32>::from_str(&src);
    assert!(res.is_ok(), "legal grammar rejected: {:?}", res.err());
}
