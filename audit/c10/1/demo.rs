//! C10 "action code" / "exactly the source's rules, productions in source order":
//! doc/src/actioncode.md says "Action code is normal Rust code", but `parse_action` finds the end
//! of an action by counting `{` / `}` characters, also those inside Rust string literals, char
//! literals and comments. An action mentioning an opening brace in a literal and a later action
//! mentioning a closing brace are silently fused into one action, and the productions in between
//! vanish from the grammar; a lone closing brace in a literal makes a legal grammar fail to parse.

use cfgrammar::{
    Symbol,
    yacc::{YaccGrammar, YaccKind},
};

fn prods_of(grm: &YaccGrammar, rule: &str) -> Vec<(Vec<String>, Option<String>)> {
    let ridx = grm.rule_idx(rule).unwrap();
    grm.rule_to_prods(ridx)
        .iter()
        .map(|&pidx| {
            (
                grm.prod(pidx)
                    .iter()
                    .map(|sym| match sym {
                        Symbol::Rule(r) => grm.rule_name_str(*r).to_string(),
                        Symbol::Token(t) => format!("'{}'", grm.token_name(*t).unwrap()),
                    })
                    .collect(),
                grm.action(pidx).clone(),
            )
        })
        .collect()
}

#[test]
fn braces_in_string_literals_fuse_productions() {
    let src = r#"%%
S -> String:
    'a' { "{".to_string() }
  | 'b' { "}".to_string() }
  ;
"#;
    let grm = YaccGrammar::new(YaccKind::Grmtools, src).expect("a legal grammar must parse");
    let expected = vec![
        (
            vec!["'a'".to_string()],
            Some(r#""{".to_string()"#.to_string()),
        ),
        (
            vec!["'b'".to_string()],
            Some(r#""}".to_string()"#.to_string()),
        ),
    ];
    assert_eq!(
        prods_of(&grm, "S"),
        expected,
        "the grammar must have exactly the source's productions and action code"
    );
}

#[test]
fn braces_in_char_literals_fuse_productions() {
    let src = "%%
S -> char:
    'a' { '{' }
  | 'b' { '}' }
  | 'c' { 'c' }
  ;
";
    let grm = YaccGrammar::new(YaccKind::Grmtools, src).expect("a legal grammar must parse");
    assert_eq!(
        grm.rule_to_prods(grm.rule_idx("S").unwrap()).len(),
        3,
        "S has three productions in the source"
    );
    assert!(
        grm.token_idx("b").is_some(),
        "token 'b' is used by the source's second production"
    );
}

#[test]
fn closing_brace_in_literal_or_comment_is_rejected() {
    for src in [
        "%%\nS -> char: 'a' { '}' } ;\n",
        "%%\nS -> &'static str: 'a' { \"}\" } ;\n",
        "%%\nS -> u32: 'a' { 1 // }\n } ;\n",
    ] {
        let res = YaccGrammar::new(YaccKind::Grmtools, src);
        assert!(
            res.is_ok(),
            "legal grammar {src:?} was rejected: {:?}",
            res.err()
        );
    }
}
