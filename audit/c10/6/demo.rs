//! C10 "whatever its layout ... or declaration order": the token lists of `%left`, `%right`,
//! `%nonassoc`, `%avoid_insert` and `%implicit_tokens` are ended by a change of the newline
//! counter only, whereas the list of `%token` is ended by the next '%'. So `%%` or a further
//! declaration may follow on the same line after `%token`, `%start`, `%expect`, `%epp` ..., but
//! after one of the former declarations the very same layout is rejected (the parser tries to
//! read "%%" as a token name).

use cfgrammar::yacc::{AssocKind, YaccGrammar, YaccKind, YaccOriginalActionKind};

const KIND: YaccKind = YaccKind::Original(YaccOriginalActionKind::NoAction);

#[test]
fn baseline_same_line_after_other_declarations() {
    YaccGrammar::new(KIND, "%token a %%\nS: a;").unwrap();
    YaccGrammar::new(KIND, "%token a %start S %expect 0 %epp a 'A' %%\nS: a;").unwrap();
    YaccGrammar::new(KIND, "%token a %left a\n%%\nS: a;").unwrap();
}

#[test]
fn rules_marker_on_the_line_of_a_precedence_declaration() {
    let res = YaccGrammar::new(KIND, "%left '+' %%\nE: E '+' E | 'n';");
    let grm = res.unwrap_or_else(|e| panic!("legal grammar rejected: {e:?}"));
    assert_eq!(
        grm.token_precedence(grm.token_idx("+").unwrap()).unwrap().kind,
        AssocKind::Left
    );
}

#[test]
fn declaration_on_the_line_of_a_precedence_declaration() {
    let res = YaccGrammar::new(KIND, "%left '+' %right '^'\n%%\nE: E '+' E | E '^' E | 'n';");
    assert!(res.is_ok(), "legal grammar rejected: {:?}", res.err());
}

#[test]
fn rules_marker_on_the_line_of_avoid_insert() {
    let res = YaccGrammar::new(KIND, "%avoid_insert 'n' %%\nE: 'n';");
    assert!(res.is_ok(), "legal grammar rejected: {:?}", res.err());
}
