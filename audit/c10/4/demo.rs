//! C10 "each rule/production/token span points at the text that defines it": the span of a
//! production runs from its first to its last symbol (or `%prec TOKEN` / `%empty`) -- unless the
//! production has an action, in which case `parse_rule` overwrites the end with the position of
//! the action's '{', so the span also takes in all the white space, newlines and comments between
//! the last symbol and the brace. The same production thus gets a different span depending on
//! whether an action follows it.

use cfgrammar::{
    PIdx,
    yacc::{YaccGrammar, YaccKind, YaccOriginalActionKind},
};

fn prod0_text(src: &str) -> &str {
    let grm = YaccGrammar::new(
        YaccKind::Original(YaccOriginalActionKind::NoAction),
        src,
    )
    .unwrap();
    let span = grm.prod_span(PIdx(0));
    &src[span.start()..span.end()]
}

#[test]
fn prod_span_without_action() {
    assert_eq!(prod0_text("%%\nS: 'a' 'b'   /* done */\n  ;"), "'a' 'b'");
    assert_eq!(prod0_text("%left 'b'\n%%\nS: 'a' %prec 'b'  ;"), "'a' %prec 'b'");
}

#[test]
fn prod_span_with_action() {
    assert_eq!(prod0_text("%%\nS: 'a' 'b' { x };"), "'a' 'b'");
}

#[test]
fn prod_span_with_action_after_comment_and_newline() {
    assert_eq!(
        prod0_text("%%\nS: 'a' 'b'   /* build the pair */\n    { x }\n  ;"),
        "'a' 'b'"
    );
}
