//! C11: each rule has "a regular expression that matches what the written one denotes".
//!
//! A rule line is split into regex and name at the last <blank> (space or tab: `RE_SPACE_SEP`),
//! but the regex part is then trimmed with `trim_end_unescaped`, which strips *every*
//! `Pattern_White_Space` character: form feed, NEL (U+0085), LEFT-TO-RIGHT / RIGHT-TO-LEFT MARK
//! (U+200E/U+200F). These are not separators (the same characters are kept in the middle of a
//! regex, and `a<FF>'T'` is "Rule is missing a space"), so a regex that ends in one of them
//! silently loses it.
use lrlex::{DefaultLexerTypes, LRNonStreamingLexerDef, LexerDef};
use lrpar::{Lexeme, Lexer};

type Def = LRNonStreamingLexerDef<DefaultLexerTypes<u32>>;

fn lens(def: &Def, input: &str) -> Vec<Result<usize, ()>> {
    def.lexer(input)
        .iter()
        .map(|r| r.map(|l| l.span().len()).map_err(|_| ()))
        .collect()
}

#[test]
fn control_inner_form_feed_is_kept() {
    let def = Def::from_str("%%\na\x0cb 'T'\n").unwrap();
    assert_eq!(def.iter_rules().next().unwrap().re_str(), "a\x0cb");
    // ... and it is not a separator either:
    assert!(Def::from_str("%%\na\x0c'T'\n").is_err());
}

#[test]
fn trailing_form_feed_is_part_of_the_regex() {
    let def = Def::from_str("%%\na\x0c 'T'\n").unwrap();
    assert_eq!(def.iter_rules().next().unwrap().re_str(), "a\x0c");
    assert_eq!(lens(&def, "a\x0c"), vec![Ok(2)]);
    assert_eq!(lens(&def, "a"), vec![Err(())]);
}

#[test]
fn trailing_left_to_right_mark_is_part_of_the_regex() {
    let def = Def::from_str("%%\nx\u{200e} 'T'\n").unwrap();
    assert_eq!(def.iter_rules().next().unwrap().re_str(), "x\u{200e}");
    assert_eq!(lens(&def, "x\u{200e}"), vec![Ok(4)]);
}
