//! C11: each rule has "a regular expression that matches what the written one denotes - a
//! backslash before a character that is special neither to lex nor to the regex engine standing
//! for that character itself".
//!
//! `x`, `u` and `U` after a backslash are special to both lex and the regex engine (hexadecimal
//! escapes). The regex engine's general form is `\x{41}`, `\u{e9}`, `\U{1F600}` (any number of
//! digits between braces) - the form lrlex itself emits for escaped non-ASCII white space. But
//! `unescape` only recognises `\x`, `\u`, `\U` when a hex digit follows immediately, so for the
//! brace form it drops the backslash: `\x{41}` silently becomes `x{41}`, i.e. 41 times `x`.
use lrlex::{DefaultLexerTypes, LRNonStreamingLexerDef, LexerDef};
use lrpar::{Lexeme, Lexer};
use regex::Regex;

type Def = LRNonStreamingLexerDef<DefaultLexerTypes<u32>>;

fn lexeme_lens(def: &Def, input: &str) -> Vec<Result<usize, ()>> {
    def.lexer(input)
        .iter()
        .map(|r| r.map(|l| l.span().len()).map_err(|_| ()))
        .collect()
}

fn check(written: &str, matching: &str) {
    // What the written regex denotes, according to the regex engine itself:
    let reference = Regex::new(&format!("\\A(?:{})", written)).unwrap();
    assert_eq!(reference.find(matching).map(|m| m.end()), Some(matching.len()));

    let src = format!("%%\n{} 'T'\n", written);
    let def = Def::from_str(&src).unwrap_or_else(|es| {
        panic!(
            "legal regex `{}` rejected (the backslash was dropped): {}",
            written, es[0]
        )
    });
    assert_eq!(
        def.iter_rules().next().unwrap().re_str(),
        written,
        "the hex escape was rewritten"
    );
    assert_eq!(
        lexeme_lens(&def, matching),
        vec![Ok(matching.len())],
        "`{}` must match {:?}",
        written,
        matching
    );
}

#[test]
fn braced_x_escape() {
    check(r"\x{41}", "A");
}

#[test]
fn braced_x_escape_does_not_become_a_repetition() {
    let def = Def::from_str("%%\n\\x{2} 'T'\n").unwrap();
    // `\x{2}` is U+0002, not "xx".
    assert_eq!(lexeme_lens(&def, "xx"), vec![Err(())]);
}

#[test]
fn braced_u_escapes() {
    check(r"\u{e9}", "\u{e9}");
    check(r"\U{1F600}", "\u{1F600}");
}

#[test]
fn braced_escape_in_class() {
    check(r"[\x{41}-\x{43}]+", "ABC");
}

#[test]
fn fixed_width_forms_are_kept() {
    // Control: the fixed-width forms work.
    check(r"\x41", "A");
    check(r"\u00e9", "\u{e9}");
    check(r"\U0001F600", "\u{1F600}");
}
