//! C11: each rule has "a regular expression that matches what the written one denotes - a
//! backslash before a character that is special neither to lex nor to the regex engine standing
//! for that character itself".
//!
//! `\B` *is* special to the regex engine (not-a-word-boundary) and doc/src/lexcompatibility.md
//! lists it among the supported escapes ("... and `\A` `\b` `\B` `\z` escape sequences"), next
//! to `\A`, `\b`, `\z` which are indeed passed through. But `unescape` does not know `B`, so
//! `\B` is rewritten to the letter `B`.
use lrlex::{DefaultLexerTypes, LRNonStreamingLexerDef, LexerDef};
use lrpar::{Lexeme, Lexer};
use regex::Regex;

type Def = LRNonStreamingLexerDef<DefaultLexerTypes<u32>>;

fn lexeme_lens(def: &Def, input: &str) -> Vec<Result<usize, ()>> {
    def.lexer(input)
        .iter()
        .map(|r| r.map(|l| l.span().len()).map_err(|_| ()))
        .collect()
}

#[test]
fn not_word_boundary_escape_is_kept() {
    let src = "%%\na\\Bb 'T'\n";
    let def = Def::from_str(src).unwrap();
    // What the written regex denotes, according to the regex engine itself:
    let reference = Regex::new(r"\A(?:a\Bb)").unwrap();
    assert!(reference.is_match("ab"));
    assert!(!reference.is_match("aBb"));

    let re_str = def.iter_rules().next().unwrap().re_str().to_string();
    assert_eq!(re_str, r"a\Bb", "the `\\B` assertion was rewritten");
    assert_eq!(lexeme_lens(&def, "ab"), vec![Ok(2)], "`a\\Bb` must match \"ab\"");
    assert_eq!(lexeme_lens(&def, "aBb"), vec![Err(())], "`a\\Bb` must not match \"aBb\"");
}

#[test]
fn sibling_escapes_are_kept() {
    // Control: the escapes the documentation lists together with `\B` are passed through.
    let def = Def::from_str("%%\n\\Aa\\b\\z 'T'\n").unwrap();
    assert_eq!(def.iter_rules().next().unwrap().re_str(), r"\Aa\b\z");
}
