//! C11: each rule has "a regular expression that matches what the written one denotes".
//!
//! `Rule::new` does not compile the written regex but the string `\A(?:<written>)`, built by
//! plain concatenation. The written text can therefore interact with the wrapper:
//!
//!  * `a)|(b` is not a regular expression (the regex engine rejects it: unopened group), yet the
//!    specification is accepted, because the wrapped text `\A(?:a)|(b)` happens to be balanced.
//!    Its second alternative is outside the `\A` anchor, so the "rule" matches a `b` anywhere
//!    ahead in the input and the lexeme covers text that no rule matches.
//!  * with `ignore_whitespace` the legal regex `a#c` (an `a`, then a comment) is rejected,
//!    because the comment swallows the wrapper's closing parenthesis.
use lrlex::{DefaultLexerTypes, LRNonStreamingLexerDef, LexerDef};
use lrpar::{Lexeme, Lexer};
use regex::{Regex, RegexBuilder};

type Def = LRNonStreamingLexerDef<DefaultLexerTypes<u32>>;

#[test]
fn unbalanced_regex_is_rejected() {
    assert!(Regex::new("a)|(b").is_err(), "not a regular expression");
    let src = "%%\na)|(b 'T'\n";
    match Def::from_str(src) {
        Err(_) => (),
        Ok(def) => {
            let lexemes = def
                .lexer("xyb")
                .iter()
                .map(|r| r.map(|l| (l.span().start(), l.span().end())).map_err(|_| ()))
                .collect::<Vec<_>>();
            panic!(
                "`a)|(b` was accepted as regex {:?}; lexing \"xyb\" gives {:?} (no rule matches `x`)",
                def.iter_rules().next().unwrap().re_str(),
                lexemes
            );
        }
    }
}

#[test]
fn comment_in_ignore_whitespace_mode() {
    let reference = RegexBuilder::new("a#c")
        .ignore_whitespace(true)
        .build()
        .expect("`a#c` is a legal regex in ignore_whitespace mode");
    assert_eq!(reference.find("a").map(|m| m.end()), Some(1));
    let src = "%grmtools{ignore_whitespace}\n%%\na#c 'T'\n";
    let def = Def::from_str(src)
        .unwrap_or_else(|es| panic!("legal specification rejected: {}", es[0]));
    let lens = def
        .lexer("a")
        .iter()
        .map(|r| r.map(|l| l.span().len()).map_err(|_| ()))
        .collect::<Vec<_>>();
    assert_eq!(lens, vec![Ok(1)]);
}
