//! C11: each rule has "a regular expression that matches what the written one denotes"
//! (observed at: lexing behaviour of the built definition).
//!
//! `^` denotes the beginning of a line (`multi_line` is on by default) or of the text
//! (`!multi_line`, and `\A`), `\b` a word boundary. `LRNonStreamingLexerDef::lexer` evaluates
//! every rule on the *slice* `&s[old_i..]`, so the regex engine cannot see the character before
//! the current position: every position looks like the beginning of the text. Look-behind
//! assertions (`^`, `\A`, `\b`, `\B`, `\b{start}`, ...) are therefore wrong at every offset
//! but 0.
use lrlex::{DefaultLexerTypes, LRNonStreamingLexerDef, LexerDef};
use lrpar::{Lexeme, Lexer};
use regex::Regex;

type Def = LRNonStreamingLexerDef<DefaultLexerTypes<u32>>;

fn toks(def: &Def, input: &str) -> Vec<Result<(u32, usize, usize), usize>> {
    def.lexer(input)
        .iter()
        .map(|r| {
            r.map(|l| (l.tok_id(), l.span().start(), l.span().end()))
                .map_err(|e| lrpar::LexError::span(&e).start())
        })
        .collect()
}

#[test]
fn caret_means_beginning_of_line() {
    // Rule 0 only applies at the beginning of a line.
    let def = Def::from_str("%%\n^a 'BOL_A'\na 'A'\n\\n 'NL'\n").unwrap();
    // What `^a` denotes at offset 1 of "aa", according to the regex engine:
    let reference = regex::RegexBuilder::new("^a").multi_line(true).build().unwrap();
    assert_eq!(reference.find_at("aa", 1), None);
    assert_eq!(
        toks(&def, "aa\na"),
        vec![Ok((0, 0, 1)), Ok((1, 1, 2)), Ok((2, 2, 3)), Ok((0, 3, 4))],
        "the second `a` is not at the beginning of a line"
    );
}

#[test]
fn start_of_text_anchor() {
    let def = Def::from_str("%%\n\\Aa 'FIRST'\na 'A'\n").unwrap();
    assert_eq!(toks(&def, "aa"), vec![Ok((0, 0, 1)), Ok((1, 1, 2))]);
}

#[test]
fn word_boundary() {
    // A digit is a `NUM` only at a word boundary; "a1" has no boundary between `a` and `1`.
    let def = Def::from_str("%%\n[a-z] 'L'\n\\b[0-9] 'NUM'\n").unwrap();
    let reference = Regex::new(r"\b[0-9]").unwrap();
    assert_eq!(reference.find_at("a1", 1), None);
    assert_eq!(
        toks(&def, "a1"),
        vec![Ok((0, 0, 1)), Err(1)],
        "`\\b[0-9]` must not match the `1` of \"a1\""
    );
}
