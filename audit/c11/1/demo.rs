//! C11: "Parsing the textual form of any lexer specification yields ... the declared start
//! states with their inclusive/exclusive kind."
//!
//! POSIX lex: "The rest of the line, after the first word, is considered to be one or more
//! <blank>-character-separated names of start conditions." Names separated by more than one
//! blank (two spaces, space+tab: e.g. a column-aligned declaration) are a legal rendering, but
//! `declare_start_states` splits the names at *every single* white-space character, obtains empty
//! "names" between adjacent blanks and rejects the specification.
use lrlex::{DefaultLexerTypes, LRNonStreamingLexerDef, LexerDef};

type Def = LRNonStreamingLexerDef<DefaultLexerTypes<u32>>;

fn states(src: &str) -> Vec<(String, bool, String)> {
    let def = Def::from_str(src).unwrap_or_else(|es| {
        panic!(
            "legal start-state declaration rejected: {:?}\nsource: {:?}",
            es, src
        )
    });
    def.iter_start_states()
        .map(|s| {
            let sp = s.name_span();
            (
                s.name().to_string(),
                format!("{:?}", s).contains("exclusive: true"),
                src[sp.start()..sp.end()].to_string(),
            )
        })
        .collect()
}

#[test]
fn single_blank_is_accepted() {
    // Control: the same declarations with exactly one blank between the names.
    let got = states("%s A B\n%x C\tD\n%%\n<A,B>a 'a'\n<C,D>b 'b'\n");
    assert_eq!(got.len(), 5);
}

#[test]
fn names_separated_by_two_spaces() {
    let got = states("%s A  B\n%%\n<A,B>a 'a'\n");
    assert_eq!(
        got[1..],
        [
            ("A".to_string(), false, "A".to_string()),
            ("B".to_string(), false, "B".to_string())
        ]
    );
}

#[test]
fn names_separated_by_space_and_tab() {
    let got = states("%x C \t D\n%%\n<C,D>b 'b'\n");
    assert_eq!(
        got[1..],
        [
            ("C".to_string(), true, "C".to_string()),
            ("D".to_string(), true, "D".to_string())
        ]
    );
}
