//! C11: "Flags given in the %grmtools section or through the builder are the ones in force".
//!
//! `nest_limit` is read from the header as a `u64` and converted with `*n as u32`
//! (lexer.rs, `cvt_num!(nest_limit, u32)`): a value above `u32::MAX` wraps around. Writing
//! `nest_limit: 4294967296` ("effectively unlimited") puts a nest limit of 0 in force, under
//! which no rule at all compiles. Either the value given must be in force (any limit >=
//! u32::MAX is equivalent for the regex engine) or the header must be rejected.
use lrlex::{DefaultLexerTypes, LRNonStreamingLexerDef, LexerDef};

type Def = LRNonStreamingLexerDef<DefaultLexerTypes<u32>>;

fn build(limit: u64) -> Result<(), String> {
    let src = format!("%grmtools{{nest_limit: {}}}\n%%\n((a)|b) 'T'\n", limit);
    Def::from_str(&src).map(|_| ()).map_err(|es| {
        es.iter()
            .map(|e| e.to_string())
            .collect::<Vec<_>>()
            .join("; ")
    })
}

#[test]
fn control_limits() {
    assert!(build(4294967295).is_ok());
    assert!(build(10).is_ok());
    // A limit that really is too small is reported by the regex engine.
    assert!(build(1).unwrap_err().contains("nested"));
}

#[test]
fn nest_limit_above_u32_max_is_not_truncated() {
    for limit in [4294967296u64, 4294967297, 8589934592] {
        match build(limit) {
            // The limit given (or a saturated one) is in force: the regex compiles.
            Ok(()) => (),
            // Or the value is refused where it is written.
            Err(msg) if msg.contains("%grmtools") => (),
            Err(msg) => panic!(
                "nest_limit: {} was given but a limit of {} is in force:\n{}",
                limit, limit as u32, msg
            ),
        }
    }
}
