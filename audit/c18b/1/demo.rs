// C18: "a failing build never leaves a stale generated file from an earlier grammar behind".
//
// History (the documented "manual lexer" flow of lrlex/examples/calc_manual_lex/build.rs):
//   build 1: grammar G1 (tokens INT, PLUS)         -> parser + token map module generated
//   edit   : G2 adds the token '*' (no rename_map entry for it, exactly what happens when a user
//            adds a token to the grammar and forgets TOKENS_MAP in build.rs)
//   build 2: parser regenerated from G2 (the token ids shift), CTTokenMapBuilder::build() FAILS
//            ("token name ... is not a valid Rust identifier")
// A build into an empty output directory would produce no token map module at all for G2; the
// incremental build leaves `token_map.rs` of G1 behind, with token ids that no longer agree with
// the regenerated parser.

use std::{collections::HashMap, fs, path::PathBuf};

use cfgrammar::yacc::{YaccKind, YaccOriginalActionKind};
use lrlex::{CTTokenMapBuilder, DefaultLexerTypes};
use lrpar::CTParserBuilder;

const G1: &str = "%start E
%token PLUS INT
%%
E: E PLUS INT | INT;
";
// '*' is declared first, so the ids of PLUS and INT move.
const G2: &str = "%start E
%token '*' PLUS INT
%%
E: E PLUS INT | E '*' INT | INT;
";

fn build_parser(grm: &PathBuf, out: &PathBuf) -> HashMap<String, u8> {
    let ctp = CTParserBuilder::<DefaultLexerTypes<u8>>::new()
        .yacckind(YaccKind::Original(YaccOriginalActionKind::NoAction))
        .grammar_path(grm)
        .output_path(out)
        .mod_name("g_y")
        .build()
        .unwrap();
    assert!(ctp.regenerated());
    ctp.token_map().clone()
}

#[test]
fn failing_token_map_build_leaves_stale_module() {
    let dir = PathBuf::from(env!("CARGO_TARGET_TMPDIR")).join("audit_demo_1");
    let _ = fs::remove_dir_all(&dir);
    fs::create_dir_all(&dir).unwrap();
    // CTTokenMapBuilder writes to $OUT_DIR/<mod_name>.rs
    unsafe { std::env::set_var("OUT_DIR", &dir) };
    let grm = dir.join("g.y");
    let tm_out = dir.join("token_map.rs");

    // build 1
    fs::write(&grm, G1).unwrap();
    let map1 = build_parser(&grm, &dir.join("g.y.rs"));
    CTTokenMapBuilder::<u8>::new("token_map", &map1)
        .build()
        .unwrap();
    let tm1 = fs::read_to_string(&tm_out).unwrap();
    assert!(tm1.contains("T_PLUS"));

    // edit the grammar, build 2 (the second spelling of the same output file gets us past lrpar's
    // "one build per path and process" guard: a real build.rs runs in a new process each time)
    fs::write(&grm, G2).unwrap();
    fs::create_dir_all(dir.join("s")).unwrap();
    let map2 = build_parser(&grm, &dir.join("s").join("..").join("g.y.rs"));
    assert_ne!(map1["PLUS"], map2["PLUS"], "token ids changed with the edit");
    let r = CTTokenMapBuilder::<u8>::new("token_map", &map2).build();
    assert!(r.is_err(), "'*' is not a Rust identifier: the build fails");

    // What a build into an empty directory produces from G2 and the same settings:
    let clean = dir.join("clean");
    fs::create_dir_all(&clean).unwrap();
    unsafe { std::env::set_var("OUT_DIR", &clean) };
    assert!(
        CTTokenMapBuilder::<u8>::new("token_map", &map2)
            .build()
            .is_err()
    );
    assert!(!clean.join("token_map.rs").exists());

    // C18: "a failing build never leaves a stale generated file from an earlier grammar behind"
    assert!(
        !tm_out.exists(),
        "the failed build left the token map of the earlier grammar behind:\n{}\n(PLUS is now {} in the regenerated parser)",
        fs::read_to_string(&tm_out).unwrap(),
        map2["PLUS"]
    );
}
