//! C09, clause: "At each position the lexer picks, among the rules active in the current start
//! state, the one with the longest non-empty match, the earliest such rule on ties".
//!
//! The length a rule contributes is taken from `Regex::find`, whose alternation and lazy
//! operators are leftmost-FIRST (Perl-like), not leftmost-longest (lex).  For a rule such as
//! `if|iffy` the lexer therefore only ever sees the 2-byte match "if", although the rule matches
//! the 4 bytes "iffy" at the same position.  A later rule then wins a comparison it should have
//! tied (and lost, being later), or the input is cut short and a lexing error is reported in the
//! middle of text that one rule matches completely.
use lrlex::{DefaultLexerTypes, LRNonStreamingLexerDef, LexerDef};
use lrpar::{LexError, Lexeme, Lexer};
use regex::Regex;

type Def = LRNonStreamingLexerDef<DefaultLexerTypes<u32>>;

/// Longest non-empty prefix of `s` that the regular expression `re` matches (as a language
/// membership question, so independent of the order of alternatives).
fn longest_match(re: &str, s: &str) -> usize {
    let full = Regex::new(&format!(r"\A(?:{})\z", re)).unwrap();
    let mut best = 0;
    for (j, c) in s.char_indices() {
        let end = j + c.len_utf8();
        if full.is_match(&s[..end]) {
            best = end;
        }
    }
    best
}

/// Reference lexer for specs without start states: longest match, earliest rule on ties.
fn reference(rules: &[(&str, Option<&str>)], input: &str) -> Vec<Result<(String, usize, usize), usize>> {
    let mut out = vec![];
    let mut i = 0;
    while i < input.len() {
        let mut best: Option<(usize, usize)> = None;
        for (ridx, (re, _)) in rules.iter().enumerate() {
            let len = longest_match(re, &input[i..]);
            if len > 0 && best.is_none_or(|(_, l)| len > l) {
                best = Some((ridx, len));
            }
        }
        match best {
            Some((ridx, len)) => {
                if let Some(n) = rules[ridx].1 {
                    out.push(Ok((n.to_string(), i, len)));
                }
                i += len;
            }
            None => {
                out.push(Err(i));
                break;
            }
        }
    }
    out
}

fn actual(src: &str, input: &str) -> Vec<Result<(String, usize, usize), usize>> {
    let def = Def::from_str(src).unwrap();
    def.lexer(input)
        .iter()
        .map(|l| match l {
            Ok(l) => Ok((
                def.get_rule_by_id(l.tok_id()).name().unwrap().to_string(),
                l.span().start(),
                l.span().len(),
            )),
            Err(e) => Err(e.span().start()),
        })
        .collect()
}

#[test]
fn tie_must_go_to_the_earlier_rule() {
    // Both rules match exactly "iffy" (4 bytes) at position 0: a tie, so the earlier rule KW
    // must be emitted.
    let src = "%%\nif|iffy 'KW'\n[a-z]+ 'ID'\n";
    let rules = [("if|iffy", Some("KW")), ("[a-z]+", Some("ID"))];
    let want = reference(&rules, "iffy");
    assert_eq!(want, vec![Ok(("KW".to_string(), 0, 4))]);
    assert_eq!(
        actual(src, "iffy"),
        want,
        "longest non-empty match, the earliest such rule on ties"
    );
}

#[test]
fn longest_match_of_a_single_rule() {
    // The only rule matches the whole input "1.5"; the lexer must emit one lexeme [0..3] and no
    // error.
    let src = "%%\n[0-9]+|[0-9]+\\.[0-9]+ 'NUM'\n";
    let rules = [(r"[0-9]+|[0-9]+\.[0-9]+", Some("NUM"))];
    let want = reference(&rules, "1.5");
    assert_eq!(want, vec![Ok(("NUM".to_string(), 0, 3))]);
    assert_eq!(
        actual(src, "1.5"),
        want,
        "matches cover the input up to its end or up to the first position where no active rule matches"
    );
}

#[test]
fn lazy_operator_hides_a_non_empty_match() {
    // `a??b?` matches "a", "b" and "ab"; on "ab" its longest match is 2 bytes.
    let src = "%%\na??b? 'X'\n";
    let rules = [("a??b?", Some("X"))];
    let want = reference(&rules, "ab");
    assert_eq!(want, vec![Ok(("X".to_string(), 0, 2))]);
    assert_eq!(actual(src, "ab"), want, "longest non-empty match");
}
