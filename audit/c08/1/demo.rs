// C08 audit demo 1.
//
// Clause: "Building a tree with actions gives the same tree as the generic parse-tree mode."
// Quantifier: all grammars x all inputs, with and without error recovery.
//
// Grammar  S: 'a' B 'c';  B: 'b' | 'd';   input  "a c".
// The error at 'c' has two minimal-cost repairs of equal rank: `Insert b` and `Insert d`.
// `cpctplus::simplify_repairs` deduplicates the ranked repair sequences through a
// `std::collections::HashSet` (randomly seeded per instance) and then only sorts by
// (avoid_insert, length), so which of the tied sequences ends up as `repairs()[0]` -- the one that
// is replayed onto the value stack -- changes from one parse to the next. As a result
// `parse_actions` with tree-building actions and `parse_map` (generic parse-tree mode) return
// different trees for the very same grammar, table and input.
use std::{error::Error, fmt, vec};

use cfgrammar::{
    RIdx, Span,
    yacc::{YaccGrammar, YaccKind, YaccOriginalActionKind},
};
use lrpar::{
    LexError, LexParseError, Lexeme, Lexer, LexerTypes, NonStreamingLexer, RTParserBuilder,
    RecoveryKind, parser::AStackType,
};
use lrtable::{Minimiser, StateTable, from_yacc};

#[derive(Debug, Clone)]
struct LT();
impl LexerTypes for LT {
    type LexemeT = Lx;
    type StorageT = u16;
    type LexErrorT = LErr;
}

#[derive(Clone, Copy, Debug, Eq, Hash, PartialEq)]
struct Lx {
    start: usize,
    len: usize,
    faulty: bool,
    tok_id: u16,
}
impl Lexeme<u16> for Lx {
    fn new(tok_id: u16, start: usize, len: usize) -> Self {
        Lx { start, len, faulty: false, tok_id }
    }
    fn new_faulty(tok_id: u16, start: usize, len: usize) -> Self {
        Lx { start, len, faulty: true, tok_id }
    }
    fn tok_id(&self) -> u16 {
        self.tok_id
    }
    fn span(&self) -> Span {
        Span::new(self.start, self.start + self.len)
    }
    fn faulty(&self) -> bool {
        self.faulty
    }
}
impl fmt::Display for Lx {
    fn fmt(&self, f: &mut fmt::Formatter) -> fmt::Result {
        write!(f, "Lx[{}..{}]", self.start, self.start + self.len)
    }
}

#[derive(Debug)]
struct LErr {}
impl LexError for LErr {
    fn span(&self) -> Span {
        Span::new(0, 0)
    }
}
impl Error for LErr {}
impl fmt::Display for LErr {
    fn fmt(&self, f: &mut fmt::Formatter) -> fmt::Result {
        write!(f, "lexing error")
    }
}

struct VecLexer<'input> {
    lexemes: Vec<Lx>,
    s: &'input str,
}
impl Lexer<LT> for VecLexer<'_> {
    fn iter<'a>(&'a self) -> Box<dyn Iterator<Item = Result<Lx, LErr>> + 'a> {
        Box::new(self.lexemes.iter().map(|x| Ok(*x)))
    }
}
impl<'input> NonStreamingLexer<'input, LT> for VecLexer<'input> {
    fn span_str(&self, span: Span) -> &'input str {
        &self.s[span.start()..span.end()]
    }
    fn span_lines_str(&self, _: Span) -> &'input str {
        self.s
    }
    fn line_col(&self, span: Span) -> ((usize, usize), (usize, usize)) {
        ((1, span.start() + 1), (1, span.end() + 1))
    }
}

/// The tree shape of the generic parse-tree mode.
#[derive(Clone, Debug, PartialEq)]
enum Tree {
    Term(Lx),
    Nonterm(RIdx<u16>, Vec<Tree>),
}

fn generic_tree(
    grm: &YaccGrammar<u16>,
    stable: &StateTable<u16>,
    lexer: &dyn NonStreamingLexer<LT>,
) -> (Option<Tree>, Vec<LexParseError<u16, LT>>) {
    RTParserBuilder::new(grm, stable)
        .recoverer(RecoveryKind::CPCTPlus)
        .parse_map(lexer, &|l| Tree::Term(l), &|ridx, nodes| {
            Tree::Nonterm(ridx, nodes)
        })
}

fn tree_action<'b, 'input>(
    ridx: RIdx<u16>,
    _lexer: &'b dyn NonStreamingLexer<'input, LT>,
    _span: Span,
    args: vec::Drain<AStackType<Lx, Tree>>,
    _param: (),
) -> Tree {
    Tree::Nonterm(
        ridx,
        args.map(|a| match a {
            AStackType::Lexeme(l) => Tree::Term(l),
            AStackType::ActionType(t) => t,
        })
        .collect(),
    )
}

fn action_tree<'b, 'input: 'b>(
    grm: &YaccGrammar<u16>,
    stable: &StateTable<u16>,
    lexer: &'b dyn NonStreamingLexer<'input, LT>,
) -> (Option<Tree>, Vec<LexParseError<u16, LT>>) {
    type F<'b, 'input> = dyn Fn(
        RIdx<u16>,
        &'b dyn NonStreamingLexer<'input, LT>,
        Span,
        vec::Drain<AStackType<Lx, Tree>>,
        (),
    ) -> Tree;
    let actions: Vec<&F<'b, 'input>> = grm
        .iter_pidxs()
        .map(|_| &tree_action as &F<'b, 'input>)
        .collect();
    RTParserBuilder::new(grm, stable)
        .recoverer(RecoveryKind::CPCTPlus)
        .parse_actions(lexer, &actions, ())
}

#[test]
fn tree_built_by_actions_is_the_generic_tree() {
    let grm = YaccGrammar::<u16>::new_with_storaget(
        YaccKind::Original(YaccOriginalActionKind::GenericParseTree),
        "%start S
%%
S: 'a' B 'c';
B: 'b' | 'd';
",
    )
    .unwrap();
    let (_, stable) = from_yacc(&grm, Minimiser::Pager).unwrap();
    // Not one of the tables with resolved conflicts.
    assert!(stable.conflicts().is_none());

    let input = "a c";
    let a = grm.token_idx("a").unwrap().0;
    let c = grm.token_idx("c").unwrap().0;
    let lexer = VecLexer {
        lexemes: vec![Lx::new(a, 0, 1), Lx::new(c, 2, 1)],
        s: input,
    };

    for round in 0..64 {
        let (gen_tree, gen_errs) = generic_tree(&grm, &stable, &lexer);
        let (act_tree, act_errs) = action_tree(&grm, &stable, &lexer);
        // Both modes recover from the single error and produce a tree.
        assert!(gen_tree.is_some() && act_tree.is_some());
        assert_eq!(gen_errs.len(), 1);
        assert_eq!(act_errs.len(), 1);
        // C08: "Building a tree with actions gives the same tree as the generic parse-tree
        // mode" (all grammars x all inputs, with and without error recovery).
        assert_eq!(
            act_tree, gen_tree,
            "round {round}: the tree built by actions differs from the generic parse tree \
             for the same grammar and input"
        );
    }
}
