//! C18 audit demo 3: replacing the grammar file by one whose modification time is older than the
//! generated parser (`mv grm_alt.y grm.y`, `cp -p`, `rsync -t`, extracting an archive, a source
//! file system with coarser time stamps than the one holding OUT_DIR, ...) is a change of the
//! grammar, but does not cause regeneration: the skip decision compares modification times only
//! and the recorded settings string says nothing about the grammar's text beyond its token names.
//!
//! Each build runs in a child process (a re-execution of this test binary), just as each cargo
//! invocation runs build.rs afresh: `CTParserBuilder` refuses to build to the same output path
//! twice within one process.

use std::{
    env, fs,
    path::{Path, PathBuf},
    process::Command,
    time::{Duration, SystemTime},
};

use cfgrammar::yacc::{YaccKind, YaccOriginalActionKind};
use lrlex::DefaultLexerTypes;
use lrpar::CTParserBuilder;

const TEST_NAME: &str = "c18_replacing_grammar_by_older_file_causes_regeneration";

const GRM_V1: &str = "%grmtools{yacckind: Original(YaccOriginalActionKind::NoAction)}
%start S
%%
S: 'A' 'B';
";
// Same tokens (in the same order, so the recorded token map is the same), different language.
const GRM_V2: &str = "%grmtools{yacckind: Original(YaccOriginalActionKind::NoAction)}
%start S
%%
S: 'A' 'B' 'B';
";

fn child_build(grm: &Path, out: &Path) {
    match CTParserBuilder::<DefaultLexerTypes<u32>>::new()
        .yacckind(YaccKind::Original(YaccOriginalActionKind::NoAction))
        .grammar_path(grm)
        .output_path(out)
        .build()
    {
        Ok(p) => println!("AUDIT_BUILD_OK regenerated={}", p.regenerated()),
        Err(e) => println!("AUDIT_BUILD_ERR {e}"),
    }
}

/// Run one build in a fresh process; returns Some(regenerated) if the build succeeded.
fn build(grm: &Path, out: &Path) -> Option<bool> {
    let o = Command::new(env::current_exe().unwrap())
        .args(["--exact", TEST_NAME, "--nocapture", "--test-threads=1"])
        .env("AUDIT_C18_GRM", grm)
        .env("AUDIT_C18_OUT", out)
        .output()
        .unwrap();
    let so = String::from_utf8_lossy(&o.stdout).to_string();
    eprintln!("--- child stdout:\n{so}");
    if so.contains("AUDIT_BUILD_OK regenerated=true") {
        Some(true)
    } else if so.contains("AUDIT_BUILD_OK regenerated=false") {
        Some(false)
    } else {
        None
    }
}

fn set_age(p: &Path, secs: u64) {
    fs::File::options()
        .write(true)
        .open(p)
        .unwrap()
        .set_modified(SystemTime::now() - Duration::from_secs(secs))
        .unwrap();
}

#[test]
fn c18_replacing_grammar_by_older_file_causes_regeneration() {
    if let (Ok(grm), Ok(out)) = (env::var("AUDIT_C18_GRM"), env::var("AUDIT_C18_OUT")) {
        child_build(Path::new(&grm), Path::new(&out));
        return;
    }

    let base = PathBuf::from(env!("CARGO_TARGET_TMPDIR")).join("audit_c18_demo_3");
    fs::remove_dir_all(&base).ok();
    let inc = base.join("out_incremental");
    let clean = base.join("out_clean");
    for d in [&inc, &clean] {
        fs::create_dir_all(d).unwrap();
    }
    let grm = base.join("grm.y");
    let grm_alt = base.join("grm_alt.y");
    fs::write(&grm, GRM_V1).unwrap();
    fs::write(&grm_alt, GRM_V2).unwrap();
    set_age(&grm, 7200); // written two hours ago
    set_age(&grm_alt, 3600); // the alternative was written one hour ago

    let inc_out = inc.join("grm.y.rs");
    let clean_out = clean.join("grm.y.rs");

    assert_eq!(build(&grm, &inc_out), Some(true));
    // The user switches to the alternative grammar: `mv grm_alt.y grm.y`.
    fs::rename(&grm_alt, &grm).unwrap();
    assert_eq!(fs::read_to_string(&grm).unwrap(), GRM_V2);
    let regenerated = build(&grm, &inc_out);
    // Reference: the current grammar built into an empty output directory.
    assert_eq!(build(&grm, &clean_out), Some(true));

    // Clause: "a change to either [grammar or lexer file] always causes regeneration".
    assert_eq!(
        regenerated,
        Some(true),
        "the grammar file changed, but the parser was not regenerated"
    );
    // Clause: "the generated files are identical (timestamp comment aside) to those a build into
    // an empty output directory would produce from the current sources and settings".
    assert_eq!(
        fs::read_to_string(&inc_out).unwrap(),
        fs::read_to_string(&clean_out).unwrap(),
        "incremental output differs from the output of a clean build"
    );
}
