//! C18 audit demo 4 (needs `--features _unstable_api`): a parser built from a pre-validated AST
//! (`CTParserBuilder::grammar_ast`, the entry point lrpar's own cttests use to build several
//! parsers with different start rules from one `.y` file) is not regenerated when the AST handed
//! to the builder changes: `from_ast` is left out of the recorded settings string on purpose
//! ("I struggle to imagine the correct thing for `from_ast`"), and the `.y` file is untouched.
//!
//! Each build runs in a child process (a re-execution of this test binary), just as each cargo
//! invocation runs build.rs afresh: `CTParserBuilder` refuses to build to the same output path
//! twice within one process.
#![cfg(feature = "_unstable_api")]

use std::{
    env,
    error::Error,
    fmt, fs,
    path::{Path, PathBuf},
    process::Command,
    time::{Duration, SystemTime},
};

use cfgrammar::{
    Span,
    yacc::{YaccKind, YaccOriginalActionKind, ast::ASTWithValidityInfo},
};
use lrpar::{CTParserBuilder, LexError, Lexeme, LexerTypes, unstable_api::UnstableApi};

const TEST_NAME: &str = "c18_change_of_ast_start_rule_causes_regeneration";

const GRM: &str = "%grmtools{yacckind: Original(YaccOriginalActionKind::NoAction)}
%start AStart
%%
AStart: 'A' BStart | 'A' CStart;
BStart: 'B' 'B';
CStart: 'C';
";

#[derive(Clone, Copy, Debug, Eq, Hash, PartialEq)]
pub struct MyLexeme {
    start: usize,
    len: usize,
    faulty: bool,
    tok_id: u32,
}
impl Lexeme<u32> for MyLexeme {
    fn new(tok_id: u32, start: usize, len: usize) -> Self {
        MyLexeme {
            start,
            len,
            faulty: false,
            tok_id,
        }
    }
    fn new_faulty(tok_id: u32, start: usize, len: usize) -> Self {
        MyLexeme {
            start,
            len,
            faulty: true,
            tok_id,
        }
    }
    fn tok_id(&self) -> u32 {
        self.tok_id
    }
    fn span(&self) -> Span {
        Span::new(self.start, self.start + self.len)
    }
    fn faulty(&self) -> bool {
        self.faulty
    }
}
impl fmt::Display for MyLexeme {
    fn fmt(&self, f: &mut fmt::Formatter) -> fmt::Result {
        write!(f, "{}..{}", self.start, self.start + self.len)
    }
}
#[derive(Debug)]
pub struct MyLexError;
impl LexError for MyLexError {
    fn span(&self) -> Span {
        Span::new(0, 0)
    }
}
impl Error for MyLexError {}
impl fmt::Display for MyLexError {
    fn fmt(&self, f: &mut fmt::Formatter) -> fmt::Result {
        write!(f, "lex error")
    }
}
#[derive(Debug, Clone)]
pub struct MyLexerTypes;
impl LexerTypes for MyLexerTypes {
    type LexemeT = MyLexeme;
    type StorageT = u32;
    type LexErrorT = MyLexError;
}

/// Child process: one run of "build.rs" which builds a parser for `grm` starting at `start`.
fn child_build(start: &str, grm: &Path, out: &Path) {
    let src = fs::read_to_string(grm).unwrap();
    let yk = YaccKind::Original(YaccOriginalActionKind::NoAction);
    let ast = ASTWithValidityInfo::new(yk, &src);
    let rule = ast.ast().get_rule(start).unwrap().clone();
    let ast = ast.clone_and_change_start_rule(rule).unwrap();
    match CTParserBuilder::<MyLexerTypes>::new()
        .yacckind(yk)
        .grammar_ast(ast, UnstableApi)
        .with_grammar_src(src, UnstableApi)
        .grammar_path(grm)
        .output_path(out)
        .warnings_are_errors(false)
        .show_warnings(false)
        .build()
    {
        Ok(p) => println!("AUDIT_BUILD_OK regenerated={}", p.regenerated()),
        Err(e) => println!("AUDIT_BUILD_ERR {e}"),
    }
}

/// Run one build in a fresh process; returns Some(regenerated) if the build succeeded.
fn build(start: &str, grm: &Path, out: &Path) -> Option<bool> {
    let o = Command::new(env::current_exe().unwrap())
        .args(["--exact", TEST_NAME, "--nocapture", "--test-threads=1"])
        .env("AUDIT_C18_START", start)
        .env("AUDIT_C18_GRM", grm)
        .env("AUDIT_C18_OUT", out)
        .output()
        .unwrap();
    let so = String::from_utf8_lossy(&o.stdout).to_string();
    eprintln!("--- child stdout:\n{so}");
    if so.contains("AUDIT_BUILD_OK regenerated=true") {
        Some(true)
    } else if so.contains("AUDIT_BUILD_OK regenerated=false") {
        Some(false)
    } else {
        None
    }
}

#[test]
fn c18_change_of_ast_start_rule_causes_regeneration() {
    if let (Ok(s), Ok(grm), Ok(out)) = (
        env::var("AUDIT_C18_START"),
        env::var("AUDIT_C18_GRM"),
        env::var("AUDIT_C18_OUT"),
    ) {
        child_build(&s, Path::new(&grm), Path::new(&out));
        return;
    }

    let base = PathBuf::from(env!("CARGO_TARGET_TMPDIR")).join("audit_c18_demo_4");
    fs::remove_dir_all(&base).ok();
    let inc = base.join("out_incremental");
    let clean = base.join("out_clean");
    for d in [&inc, &clean] {
        fs::create_dir_all(d).unwrap();
    }
    let grm = base.join("grm.y");
    fs::write(&grm, GRM).unwrap();
    // The grammar was last edited a while ago (no reliance on timestamp granularity).
    fs::File::options()
        .write(true)
        .open(&grm)
        .unwrap()
        .set_modified(SystemTime::now() - Duration::from_secs(3600))
        .unwrap();
    let inc_out = inc.join("grm.y.rs");
    let clean_out = clean.join("grm.y.rs");

    assert_eq!(build("BStart", &grm, &inc_out), Some(true));
    assert_eq!(build("BStart", &grm, &inc_out), Some(false));
    // build.rs is changed to ask for a parser that starts at `CStart`.
    let regenerated = build("CStart", &grm, &inc_out);
    // Reference: the same request built into an empty output directory.
    assert_eq!(build("CStart", &grm, &clean_out), Some(true));

    // Clause: "a change to either [sources or settings] always causes regeneration".
    assert_eq!(
        regenerated,
        Some(true),
        "the AST given to the builder changed, but the parser was not regenerated"
    );
    // Clause: "the generated files are identical (timestamp comment aside) to those a build into
    // an empty output directory would produce from the current sources and settings".
    assert_eq!(
        fs::read_to_string(&inc_out).unwrap(),
        fs::read_to_string(&clean_out).unwrap(),
        "incremental output differs from the output of a clean build"
    );
}
