//! C18 audit demo 1: after an edit of the *lexer* file, an incremental build must end in the state
//! a clean build (empty output directory) would end in.
//!
//! The grammar names `test_files` in its `%grmtools` section. `CTLexerBuilder` checks those files
//! (lexing them with the current lexer and parsing them with the current grammar) from inside the
//! parser builder's `inspect_rt` callback -- which `CTParserBuilder` only calls when it decides to
//! regenerate the parser. After an edit of the `.l` file alone the parser is "up to date", so the
//! check is skipped: the incremental build succeeds and leaves both generated files in place,
//! while a build into an empty output directory fails and leaves nothing.
//!
//! Each build runs in a child process (a re-execution of this test binary), exactly as each cargo
//! invocation runs build.rs in a fresh process: `CTParserBuilder`/`CTLexerBuilder` refuse to build
//! to the same output path twice within one process.

use std::{
    env, fs,
    path::{Path, PathBuf},
    process::Command,
    time::{Duration, SystemTime},
};

use cfgrammar::yacc::{YaccKind, YaccOriginalActionKind};
use lrlex::{CTLexerBuilder, DefaultLexerTypes};

const TEST_NAME: &str = "c18_lexer_edit_ends_in_clean_build_state";

const GRM: &str = "%grmtools{yacckind: Original(YaccOriginalActionKind::NoAction), test_files: [\"*.c18input\"]}
%start S
%%
S: 'A' 'B';
";
const LEX_V1: &str = "%%
a 'A'
b 'B'
[ \\n]+ ;
";
// The edit: the lexer no longer recognises `b`, so the test input no longer lexes.
const LEX_V2: &str = "%%
a 'A'
c 'B'
[ \\n]+ ;
";
const INPUT: &str = "a b\n";

/// Child process: one run of "build.rs".
fn child_build(src_dir: &Path, out_dir: &Path) {
    let grm_p = src_dir.join("grm.y");
    let grm_out = out_dir.join("grm.y.rs");
    let r = CTLexerBuilder::<DefaultLexerTypes<u32>>::new_with_lexemet()
        .lrpar_config(move |ctp| {
            ctp.yacckind(YaccKind::Original(YaccOriginalActionKind::NoAction))
                .grammar_path(&grm_p)
                .output_path(&grm_out)
        })
        .lexer_path(src_dir.join("lex.l"))
        .output_path(out_dir.join("lex.l.rs"))
        .build();
    match r {
        Ok(_) => println!("AUDIT_BUILD_OK"),
        Err(e) => println!("AUDIT_BUILD_ERR {}", e.to_string().replace('\n', " | ")),
    }
}

/// Run one build in a fresh process; returns true iff the build succeeded.
fn build(src_dir: &Path, out_dir: &Path) -> bool {
    let o = Command::new(env::current_exe().unwrap())
        .args(["--exact", TEST_NAME, "--nocapture", "--test-threads=1"])
        .env("AUDIT_C18_SRC", src_dir)
        .env("AUDIT_C18_OUT", out_dir)
        .output()
        .unwrap();
    let so = String::from_utf8_lossy(&o.stdout).to_string();
    eprintln!("--- child stdout:\n{so}");
    if so.contains("AUDIT_BUILD_OK") {
        true
    } else {
        assert!(
            so.contains("AUDIT_BUILD_ERR") || !o.status.success(),
            "child did not run a build"
        );
        false
    }
}

/// The state of an output directory: for each generated file, its contents (None if absent).
fn state(out_dir: &Path) -> Vec<(String, Option<String>)> {
    ["grm.y.rs", "lex.l.rs"]
        .iter()
        .map(|n| (n.to_string(), fs::read_to_string(out_dir.join(n)).ok()))
        .collect()
}

fn summary(st: &[(String, Option<String>)]) -> Vec<(String, &'static str)> {
    st.iter()
        .map(|(n, c)| (n.clone(), if c.is_some() { "present" } else { "absent" }))
        .collect()
}

#[test]
fn c18_lexer_edit_ends_in_clean_build_state() {
    if let (Ok(src), Ok(out)) = (env::var("AUDIT_C18_SRC"), env::var("AUDIT_C18_OUT")) {
        child_build(Path::new(&src), Path::new(&out));
        return;
    }

    let base = PathBuf::from(env!("CARGO_TARGET_TMPDIR")).join("audit_c18_demo_1");
    fs::remove_dir_all(&base).ok();
    let src = base.join("src");
    let inc = base.join("out_incremental");
    let clean = base.join("out_clean");
    for d in [&src, &inc, &clean] {
        fs::create_dir_all(d).unwrap();
    }
    fs::write(src.join("grm.y"), GRM).unwrap();
    fs::write(src.join("lex.l"), LEX_V1).unwrap();
    fs::write(src.join("t.c18input"), INPUT).unwrap();
    // The sources were last edited a while ago (no reliance on timestamp granularity).
    let old = SystemTime::now() - Duration::from_secs(3600);
    for f in ["grm.y", "lex.l", "t.c18input"] {
        fs::File::options()
            .write(true)
            .open(src.join(f))
            .unwrap()
            .set_modified(old)
            .unwrap();
    }

    // Build 1: everything is fine; both files are generated.
    assert!(build(&src, &inc), "first build must succeed");
    let st1 = state(&inc);
    assert!(st1.iter().all(|(_, c)| c.is_some()));

    // Edit the lexer (its mtime becomes "now").
    fs::write(src.join("lex.l"), LEX_V2).unwrap();

    // Build 2: incremental.
    let inc_ok = build(&src, &inc);
    let inc_state = state(&inc);

    // Reference: the same sources and settings built into an empty output directory.
    let clean_ok = build(&src, &clean);
    let clean_state = state(&clean);

    eprintln!(
        "incremental: ok={inc_ok} {:?}\nclean:       ok={clean_ok} {:?}",
        summary(&inc_state),
        summary(&clean_state)
    );

    // Clause: "After any sequence of builds interleaved with edits to the grammar or lexer file
    // ..., the generated files are identical (timestamp comment aside) to those a build into an
    // empty output directory would produce from the current sources and settings".
    assert_eq!(
        inc_ok, clean_ok,
        "incremental build and clean build of the same sources disagree on success"
    );
    assert_eq!(
        summary(&inc_state),
        summary(&clean_state),
        "incremental build left generated files that a clean build of the current sources does not produce"
    );
}
