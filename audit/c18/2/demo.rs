//! C18 audit demo 2: a change of the builder's `LexerTypesT::LexemeT` must cause regeneration.
//!
//! The generated parser names three types taken from the builder's type parameter:
//! `type_name::<StorageT>()`, `type_name::<LexerTypesT>()` and -- in the signature of every action
//! function whose production mentions a token -- `type_name::<LexerTypesT::LexemeT>()`. The
//! recorded settings string (`rebuild_cache`) contains only the first two. A user who owns the
//! `LexerTypes` implementation and edits `type LexemeT = ...;` between two builds (the name of the
//! implementing type, and `StorageT`, staying the same) therefore gets "not regenerated" and keeps
//! a parser that mentions the old lexeme type.
//!
//! The two states of the user's `impl LexerTypes for MyLexerTypes` are emulated here by two
//! block-local declarations of `MyLexerTypes` (both have the same `type_name`, exactly as the
//! type would have before and after the user's edit). Each build runs in a child process (a
//! re-execution of this test binary), just as each cargo invocation runs build.rs afresh:
//! `CTParserBuilder` refuses to build to the same output path twice within one process.

use std::{
    env,
    error::Error,
    fmt, fs,
    path::{Path, PathBuf},
    process::Command,
    time::{Duration, SystemTime},
};

use cfgrammar::{Span, yacc::YaccKind};
use lrpar::{CTParserBuilder, LexError, Lexeme, LexerTypes};

const TEST_NAME: &str = "c18_change_of_lexemet_causes_regeneration";

const GRM: &str = "%grmtools{yacckind: Grmtools}
%start S
%%
S -> u32: 'A' { let _ = $1; 0 };
";

macro_rules! lexeme {
    ($n:ident) => {
        #[derive(Clone, Copy, Debug, Eq, Hash, PartialEq)]
        pub struct $n {
            start: usize,
            len: usize,
            faulty: bool,
            tok_id: u32,
        }
        impl Lexeme<u32> for $n {
            fn new(tok_id: u32, start: usize, len: usize) -> Self {
                $n {
                    start,
                    len,
                    faulty: false,
                    tok_id,
                }
            }
            fn new_faulty(tok_id: u32, start: usize, len: usize) -> Self {
                $n {
                    start,
                    len,
                    faulty: true,
                    tok_id,
                }
            }
            fn tok_id(&self) -> u32 {
                self.tok_id
            }
            fn span(&self) -> Span {
                Span::new(self.start, self.start + self.len)
            }
            fn faulty(&self) -> bool {
                self.faulty
            }
        }
        impl fmt::Display for $n {
            fn fmt(&self, f: &mut fmt::Formatter) -> fmt::Result {
                write!(f, "{}..{}", self.start, self.start + self.len)
            }
        }
    };
}
lexeme!(OldLexeme);
lexeme!(NewLexeme);

#[derive(Debug)]
pub struct MyLexError;
impl LexError for MyLexError {
    fn span(&self) -> Span {
        Span::new(0, 0)
    }
}
impl Error for MyLexError {}
impl fmt::Display for MyLexError {
    fn fmt(&self, f: &mut fmt::Formatter) -> fmt::Result {
        write!(f, "lex error")
    }
}

fn run<LT: LexerTypes<StorageT = u32>>(grm: &Path, out: &Path) {
    println!(
        "AUDIT_TYPES LexerTypesT={} LexemeT={}",
        std::any::type_name::<LT>(),
        std::any::type_name::<LT::LexemeT>()
    );
    match CTParserBuilder::<LT>::new()
        .yacckind(YaccKind::Grmtools)
        .grammar_path(grm)
        .output_path(out)
        .build()
    {
        Ok(p) => println!("AUDIT_BUILD_OK regenerated={}", p.regenerated()),
        Err(e) => println!("AUDIT_BUILD_ERR {e}"),
    }
}

/// Child process: one run of "build.rs", before (`old`) or after (`new`) the user's edit.
fn child_build(variant: &str, grm: &Path, out: &Path) {
    if variant == "old" {
        #[derive(Debug, Clone)]
        struct MyLexerTypes;
        impl LexerTypes for MyLexerTypes {
            type LexemeT = OldLexeme;
            type StorageT = u32;
            type LexErrorT = MyLexError;
        }
        run::<MyLexerTypes>(grm, out)
    } else {
        #[derive(Debug, Clone)]
        struct MyLexerTypes;
        impl LexerTypes for MyLexerTypes {
            type LexemeT = NewLexeme; // <- the user's edit
            type StorageT = u32;
            type LexErrorT = MyLexError;
        }
        run::<MyLexerTypes>(grm, out)
    }
}

/// Run one build in a fresh process; returns Some(regenerated) if the build succeeded.
fn build(variant: &str, grm: &Path, out: &Path) -> Option<bool> {
    let o = Command::new(env::current_exe().unwrap())
        .args(["--exact", TEST_NAME, "--nocapture", "--test-threads=1"])
        .env("AUDIT_C18_VARIANT", variant)
        .env("AUDIT_C18_GRM", grm)
        .env("AUDIT_C18_OUT", out)
        .output()
        .unwrap();
    let so = String::from_utf8_lossy(&o.stdout).to_string();
    eprintln!("--- child stdout:\n{so}");
    if so.contains("AUDIT_BUILD_OK regenerated=true") {
        Some(true)
    } else if so.contains("AUDIT_BUILD_OK regenerated=false") {
        Some(false)
    } else {
        None
    }
}

#[test]
fn c18_change_of_lexemet_causes_regeneration() {
    if let (Ok(v), Ok(grm), Ok(out)) = (
        env::var("AUDIT_C18_VARIANT"),
        env::var("AUDIT_C18_GRM"),
        env::var("AUDIT_C18_OUT"),
    ) {
        child_build(&v, Path::new(&grm), Path::new(&out));
        return;
    }

    let base = PathBuf::from(env!("CARGO_TARGET_TMPDIR")).join("audit_c18_demo_2");
    fs::remove_dir_all(&base).ok();
    let inc = base.join("out_incremental");
    let clean = base.join("out_clean");
    for d in [&inc, &clean] {
        fs::create_dir_all(d).unwrap();
    }
    let grm = base.join("grm.y");
    fs::write(&grm, GRM).unwrap();
    // The grammar was last edited a while ago (no reliance on timestamp granularity).
    fs::File::options()
        .write(true)
        .open(&grm)
        .unwrap()
        .set_modified(SystemTime::now() - Duration::from_secs(3600))
        .unwrap();

    let inc_out = inc.join("grm.y.rs");
    let clean_out = clean.join("grm.y.rs");

    // Build 1, with the old `LexemeT`.
    assert_eq!(build("old", &grm, &inc_out), Some(true));
    // Unchanged configuration: not regenerated, and reports so.
    assert_eq!(build("old", &grm, &inc_out), Some(false));
    // The user changes `LexemeT`; build 3 is incremental.
    let regenerated = build("new", &grm, &inc_out);
    // Reference: the same grammar and settings built into an empty output directory.
    assert_eq!(build("new", &grm, &clean_out), Some(true));

    let inc_s = fs::read_to_string(&inc_out).unwrap();
    let clean_s = fs::read_to_string(&clean_out).unwrap();
    eprintln!(
        "incremental output mentions OldLexeme: {}, NewLexeme: {}\nclean output mentions OldLexeme: {}, NewLexeme: {}",
        inc_s.contains("OldLexeme"),
        inc_s.contains("NewLexeme"),
        clean_s.contains("OldLexeme"),
        clean_s.contains("NewLexeme")
    );

    // Clause: "a change to either [sources or settings] always causes regeneration".
    assert_eq!(
        regenerated,
        Some(true),
        "LexerTypesT::LexemeT changed, but the parser was not regenerated"
    );
    // Clause: "the generated files are identical (timestamp comment aside) to those a build into
    // an empty output directory would produce from the current sources and settings".
    assert_eq!(
        inc_s, clean_s,
        "incremental output differs from the output of a clean build"
    );
}
