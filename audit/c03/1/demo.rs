// C03: "between shift and reduce the one selected by the token's and production's precedence and
// associativity ..., %nonassoc making the entry an error"; "The reported shift/reduce and
// reduce/reduce conflicts are exactly the pairs settled by the two default rules".
//
// In a cell that holds a shift and TWO reductions, StateTable::new first settles the
// reduce/reduce pair by declaration order (and reports it), and only then compares the shift with
// the surviving (earlier) production. Yacc (byacc's remove_conflicts as well as bison's
// set_conflicts/resolve_sr_conflict) compares the shift with *every* reduction that has a
// precedence; a reduction that loses against the shift by precedence is removed silently and can
// no longer take part in a reduce/reduce conflict.
use cfgrammar::{
    Symbol,
    yacc::{YaccGrammar, YaccKind, YaccOriginalActionKind},
};
use lrtable::{Action, Minimiser, StIdx, from_yacc};

/// Walk `syms` from the start state.
fn walk(
    grm: &YaccGrammar<u32>,
    sg: &lrtable::StateGraph<u32>,
    syms: &[&str],
) -> StIdx<u32> {
    let mut st = sg.start_state();
    for s in syms {
        let sym = match grm.rule_idx(s) {
            Some(r) => Symbol::Rule(r),
            None => Symbol::Token(grm.token_idx(s).unwrap()),
        };
        st = sg.edge(st, sym).unwrap();
    }
    st
}

#[test]
fn left_assoc_is_lost_when_an_earlier_lower_precedence_production_shares_the_cell() {
    // pidx 0: S: E   1: S: L '+' 'n'   2: L: E '+' E %prec LOW   3: E: E '+' E   4: E: 'n'
    let src = "%start S
%nonassoc LOW
%left '+'
%%
S: E | L '+' 'n' ;
L: E '+' E %prec LOW ;
E: E '+' E | 'n' ;
";
    let grm = YaccGrammar::new(YaccKind::Original(YaccOriginalActionKind::NoAction), src).unwrap();
    let (sg, st) = from_yacc(&grm, Minimiser::Pager).unwrap();
    let k = walk(&grm, &sg, &["E", "+", "E"]);
    let plus = grm.token_idx("+").unwrap();
    let p_l = grm.rule_to_prods(grm.rule_idx("L").unwrap())[0];
    let p_e = grm.rule_to_prods(grm.rule_idx("E").unwrap())[0];
    // The automaton offers three actions for (k, '+'): shift, reduce L, reduce E: E '+' E.
    let items = &sg.closed_state(k).items;
    assert!(items[&(p_l, grm.prod_len(p_l))][usize::from(plus)]);
    assert!(items[&(p_e, grm.prod_len(p_e))][usize::from(plus)]);
    assert!(sg.edge(k, Symbol::Token(plus)).is_some());
    // shift '+' vs L (level of LOW < level of '+'): shift wins by precedence, silently.
    // shift '+' vs E: E '+' E (same level, %left): the reduction wins by associativity, silently.
    // Nothing is left for a default rule to settle, so Yacc reduces E: E '+' E (n+n+n groups to the
    // left) and reports no conflict for this cell.
    let conflicts_here: Vec<String> = match st.conflicts() {
        None => vec![],
        Some(c) => c
            .rr_conflicts()
            .filter(|(t, _, _, s)| *t == plus && *s == k)
            .map(|(_, p1, p2, _)| format!("rr {} / {}", grm.pp_prod(*p1), grm.pp_prod(*p2)))
            .chain(
                c.sr_conflicts()
                    .filter(|(t, _, s)| *t == plus && *s == k)
                    .map(|(_, p, _)| format!("sr '+' / {}", grm.pp_prod(*p))),
            )
            .collect(),
    };
    assert_eq!(
        (st.action(k, plus), conflicts_here),
        (Action::Reduce(p_e), vec![]),
        "shift/reduce between '+' (%left) and E: E '+' E must be settled by associativity (reduce)"
    );
}

#[test]
fn nonassoc_is_lost_when_an_earlier_lower_precedence_production_shares_the_cell() {
    let src = "%start S
%nonassoc LOW
%nonassoc '<'
%%
S: E | L '<' 'n' ;
L: E '<' E %prec LOW ;
E: E '<' E | 'n' ;
";
    let grm = YaccGrammar::new(YaccKind::Original(YaccOriginalActionKind::NoAction), src).unwrap();
    let (sg, st) = from_yacc(&grm, Minimiser::Pager).unwrap();
    let k = walk(&grm, &sg, &["E", "<", "E"]);
    let lt = grm.token_idx("<").unwrap();
    // shift '<' vs E: E '<' E: same level, %nonassoc => "making the entry an error".
    assert_eq!(
        st.action(k, lt),
        Action::Error,
        "%nonassoc '<' must make (state after E '<' E, '<') an error entry"
    );
}

#[test]
fn default_rule_pair_is_reported_as_the_wrong_kind() {
    // pidx 2: L: E 'x' E %prec LOW    3: E: E 'x' E (no precedence)
    let src = "%start S
%nonassoc LOW
%left '+'
%%
S: E | L '+' 'n' ;
L: E 'x' E %prec LOW ;
E: E 'x' E | E '+' E | 'n' ;
";
    let grm = YaccGrammar::new(YaccKind::Original(YaccOriginalActionKind::NoAction), src).unwrap();
    let (sg, st) = from_yacc(&grm, Minimiser::Pager).unwrap();
    let k = walk(&grm, &sg, &["E", "x", "E"]);
    let plus = grm.token_idx("+").unwrap();
    let p_exe = grm.rule_to_prods(grm.rule_idx("E").unwrap())[0];
    // (k, '+'): shift '+', reduce L (precedence LOW < '+': the shift wins by precedence), reduce
    // E: E 'x' E (no precedence: the shift wins by the DEFAULT rule). The table holds the shift,
    // so the one pair settled by a default rule is the shift/reduce pair ('+', E: E 'x' E).
    assert_eq!(st.action(k, plus), Action::Shift(sg.edge(k, Symbol::Token(plus)).unwrap()));
    let c = st.conflicts().unwrap();
    let sr: Vec<_> = c.sr_conflicts().filter(|(t, _, s)| *t == plus && *s == k).collect();
    let rr: Vec<_> = c.rr_conflicts().filter(|(t, _, _, s)| *t == plus && *s == k).collect();
    // Whatever one thinks of the reduce/reduce pair, the shift/reduce pair ('+', E: E 'x' E) was
    // settled by the default rule "shift when either side lacks a precedence" and must be reported.
    assert_eq!(
        sr.iter().map(|(_, p, _)| *p).collect::<Vec<_>>(),
        vec![p_exe],
        "the shift/reduce pair ('+', E: E 'x' E) was settled by the default rule: it must be reported \
         (reduce/reduce pairs reported for this cell: {})",
        rr.len()
    );
    // byacc and bison: L lost its lookahead '+' to the shift by precedence, so there is no
    // reduce/reduce pair left (the grammar needs `%expect 1`, not `%expect-rr 1`).
    assert_eq!(rr.len(), 0);
}
