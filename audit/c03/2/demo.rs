// C03: "a compile-time build fails iff their counts differ from %expect / %expect-rr (default 0)".
//
// Build history: g.y (conflict free) is built; then g.y is replaced by a grammar with a
// shift/reduce conflict (same tokens) whose modification time is older than the generated file
// (cp -p / mv / tar x / rsync -t all preserve mtimes). CTParserBuilder::build() decides whether to
// skip the whole table construction -- including the conflict check -- from mtimes and a cache
// string that does not depend on the grammar's rules, so the second build succeeds and leaves the
// parser generated from the *old* grammar in place.
//
// Each build runs in its own process (CTParserBuilder refuses to generate to the same path twice
// in one process), just as two successive `cargo build`s would.
use cfgrammar::yacc::{YaccKind, YaccOriginalActionKind};
use lrlex::DefaultLexerTypes;
use lrpar::CTParserBuilder;
use std::{
    fs,
    path::PathBuf,
    process::Command,
    time::{Duration, SystemTime},
};

const V1: &str = "%%\nS: 'i' S 'e' S | 'x';\n";
// The dangling else: one shift/reduce conflict, no %expect.
const V2: &str = "%%\nS: 'i' S 'e' S | 'i' S | 'x';\n";

fn paths() -> (PathBuf, PathBuf) {
    let mut d = PathBuf::from(env!("CARGO_TARGET_TMPDIR"));
    d.push("audit_demo_2");
    (d.join("g.y"), d.join("g.y.rs"))
}

fn build() -> Result<bool, String> {
    let (g, o) = paths();
    CTParserBuilder::<DefaultLexerTypes<u32>>::new()
        .yacckind(YaccKind::Original(YaccOriginalActionKind::NoAction))
        .grammar_path(&g)
        .output_path(&o)
        .show_warnings(false)
        .build()
        .map(|p| p.regenerated())
        .map_err(|e| e.to_string())
}

#[test]
fn child() {
    // Only does something when run by `second_build_must_fail`.
    if std::env::var("AUDIT_DEMO_2_CHILD").is_err() {
        return;
    }
    match build() {
        Ok(regen) => println!("BUILD_OK regenerated={regen}"),
        Err(e) => println!("BUILD_ERR {}", e.lines().next().unwrap_or("")),
    }
}

fn run_child() -> String {
    let out = Command::new(std::env::current_exe().unwrap())
        .args(["child", "--exact", "--nocapture", "--test-threads=1"])
        .env("AUDIT_DEMO_2_CHILD", "1")
        .output()
        .unwrap();
    String::from_utf8_lossy(&out.stdout).to_string()
}

#[test]
fn second_build_must_fail() {
    let (g, o) = paths();
    fs::remove_dir_all(g.parent().unwrap()).ok();
    fs::create_dir_all(g.parent().unwrap()).unwrap();

    // Control: V2 on its own is rejected.
    fs::write(&g, V2).unwrap();
    let out = run_child();
    assert!(out.contains("BUILD_ERR Shift/Reduce conflict"), "{out}");
    assert!(!o.exists());

    // First build: V1, no conflicts.
    fs::write(&g, V1).unwrap();
    let out = run_child();
    assert!(out.contains("BUILD_OK regenerated=true"), "{out}");
    let generated_v1 = fs::read_to_string(&o).unwrap();

    // g.y is replaced by V2, with an mtime older than the generated file.
    fs::write(&g, V2).unwrap();
    let old = SystemTime::now() - Duration::from_secs(3600);
    fs::File::options().write(true).open(&g).unwrap().set_modified(old).unwrap();

    // Second build: the grammar now has 1 shift/reduce conflict and %expect defaults to 0.
    let out = run_child();
    assert!(
        out.contains("BUILD_ERR"),
        "the build of a grammar with 1 S/R conflict and no %expect must fail, but: {out}\
         (generated file still the one of the old grammar: {})",
        fs::read_to_string(&o).map(|s| s == generated_v1).unwrap_or(false)
    );
}
