// C03, clause: "between two reductions the production declared earlier ... The reported ...
// reduce/reduce conflicts are exactly the pairs settled by the two default rules".
//
// In a cell with three (or more) reductions the default rule keeps the earliest production and drops
// every other one: the pairs it settles are (kept, dropped). `Conflicts::rr_conflicts()` instead
// reports whatever pairs the hash order of the item set happened to compare: for three productions
// A0 < A1 < A2 it reports (A1, A2) and (A0, A1) -- a pair whose "winner" A1 is not in the table --
// and never reports (A0, A2), although A2 was dropped in favour of A0.
use std::collections::{BTreeMap, BTreeSet};

use cfgrammar::yacc::{YaccGrammar, YaccKind, YaccOriginalActionKind};
use lrtable::{Action, Minimiser, from_yacc};

#[test]
fn rr_pairs_name_the_production_the_table_holds() {
    let src = "%start S
%%
S: A0 'x' | A1 'x' | A2 'x';
A0: 'a';
A1: 'a';
A2: 'a';
";
    let grm = YaccGrammar::<u32>::new_with_storaget(
        YaccKind::Original(YaccOriginalActionKind::GenericParseTree),
        src,
    )
    .unwrap();
    let (sg, st) = from_yacc(&grm, Minimiser::Pager).unwrap();
    let a: Vec<_> = (0..3)
        .map(|i| grm.rule_to_prods(grm.rule_idx(&format!("A{i}")).unwrap())[0])
        .collect();
    let x = grm.token_idx("x").unwrap();
    let s_a = sg
        .edge(sg.start_state(), cfgrammar::Symbol::Token(grm.token_idx("a").unwrap()))
        .unwrap();
    // The table is right: the production declared first is kept.
    assert_eq!(st.action(s_a, x), Action::Reduce(a[0]));

    let c = st.conflicts().unwrap();
    assert_eq!(c.rr_len(), 2);
    // Pairs settled by the default rule in that cell: (A0, A1) and (A0, A2).
    let expected: BTreeSet<_> = [(a[0], a[1]), (a[0], a[2])]
        .iter()
        .map(|(w, l)| (usize::from(*w), usize::from(*l)))
        .collect();
    let mut got = BTreeSet::new();
    let mut cells = BTreeMap::new();
    for (tidx, p1, p2, stidx) in c.rr_conflicts() {
        cells.insert((usize::from(*stidx), usize::from(*tidx)), ());
        assert_eq!((*stidx, *tidx), (s_a, x));
        // Every reported pair was settled in favour of the production the table holds.
        assert_eq!(
            st.action(*stidx, *tidx),
            Action::Reduce(*p1),
            "reported pair ({:?}, {:?}): its first production is not the one the default rule kept\n{}",
            p1,
            p2,
            c.pp_rr(&grm)
        );
        got.insert((usize::from(*p1), usize::from(*p2)));
    }
    assert_eq!(got, expected);
}
