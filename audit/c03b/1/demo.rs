// C03, clause: "a compile-time build fails iff their counts differ from %expect / %expect-rr
// (default 0)" x "production precedence being that of its %prec token".
//
// The textbook unary-minus grammar gives its production the precedence of a pseudo-token that is
// named only by `%prec` (and by its `%left` declaration). Every conflict of the grammar is settled by
// precedence, so there are 0 shift/reduce and 0 reduce/reduce conflicts, which is what the default
// `%expect 0` / `%expect-rr 0` asks for: `CTParserBuilder::build()` has to succeed. It fails instead:
// the token that `%prec` itself added to the grammar is reported as "Unused token", and unused
// symbols are errors by default.
use std::{fs, path::PathBuf};

use cfgrammar::yacc::{YaccKind, YaccOriginalActionKind};
use lrlex::DefaultLexerTypes;
use lrpar::CTParserBuilder;

const GRM: &str = "%start E
%left '-'
%left UMINUS
%%
E: E '-' E
 | '-' E %prec UMINUS
 | 'n';
";

fn build(name: &str, warnings_are_errors: Option<bool>) -> Result<(), String> {
    let mut dir = PathBuf::from(env!("CARGO_MANIFEST_DIR"));
    dir.push("../target/audit_demo_1");
    dir.push(name);
    let _ = fs::remove_dir_all(&dir);
    fs::create_dir_all(&dir).unwrap();
    let grm = dir.join("grm.y");
    fs::write(&grm, GRM).unwrap();
    let out = dir.join("grm.y.rs");
    let mut b = CTParserBuilder::<DefaultLexerTypes<u32>>::new()
        .yacckind(YaccKind::Original(YaccOriginalActionKind::GenericParseTree))
        .grammar_path(grm.to_str().unwrap())
        .output_path(&out);
    // error_on_conflicts is left at its default (true): an Ok below proves that the number of
    // reported conflicts equals the default %expect 0 / %expect-rr 0.
    if let Some(w) = warnings_are_errors {
        b = b.warnings_are_errors(w);
    }
    match b.build() {
        Ok(_) => Ok(()),
        Err(e) => Err(format!("{e}")),
    }
}

#[test]
fn prec_pseudo_token_does_not_fail_the_build() {
    // Control: the conflict counts do match the (default) declarations.
    assert_eq!(
        build("control", Some(false)),
        Ok(()),
        "control: with conflicts as errors the grammar builds, i.e. 0 s/r and 0 r/r are reported"
    );
    // The clause: counts equal %expect/%expect-rr (default 0) => the compile-time build succeeds.
    let r = build("default", None);
    assert_eq!(
        r,
        Ok(()),
        "conflict counts equal the default %expect 0 / %expect-rr 0, yet build() fails"
    );
}
