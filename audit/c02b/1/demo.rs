// Audit demo 1 (property C02): a grammar that is LR(1) -- the canonical LR(1) construction over
// terminal strings has no conflicts -- is reported with a reduce/reduce conflict, and the parser
// built from the table rejects the only sentence of the language.
//
//   S: A U 'z' | B 'x';   A: 'a';   B: 'a';   U: 'x' U;
//
// `U` derives no terminal string (it is unproductive), so FIRST(U 'z') -- the set of terminals
// that begin a terminal string derived from `U 'z'` -- is empty, and in the canonical LR(1)
// automaton the item [A -> 'a' .] has no lookahead at all: after reading 'a' the only action on
// lookahead 'x' is "reduce B -> 'a'".  L(G) = { a x }, and a canonical LR(1) parser accepts "a x".
//
// cfgrammar computes FIRST over sentential forms (FIRST(U) = {'x'}), so lrtable gives
// [A -> 'a' ., {'x'}] and [B -> 'a' ., {'x'}]: a reduce/reduce conflict, resolved in favour of
// A -> 'a', after which "a x" is a syntax error.
//
// NB: this is not the "phantom item" (empty lookahead set) problem: no item with an empty
// lookahead set is involved in the conflict, and dropping such items does not remove it.

use cfgrammar::yacc::{YaccGrammar, YaccKind, YaccOriginalActionKind};
use lrlex::{DefaultLexerTypes, LRNonStreamingLexerDef, LexerDef};
use lrpar::{RTParserBuilder, RecoveryKind};
use lrtable::{Minimiser, from_yacc};

const GRM: &str = "
%start S
%%
S: A U 'z' | B 'x';
A: 'a';
B: 'a';
U: 'x' U;
";

const LEX: &str = "%%
a 'a'
x 'x'
z 'z'
[ \\t\\n]+ ;
";

#[test]
#[allow(deprecated)]
fn lr1_grammar_reported_with_conflict_and_sentence_rejected() {
    let grm = YaccGrammar::<u32>::new_with_storaget(
        YaccKind::Original(YaccOriginalActionKind::GenericParseTree),
        GRM,
    )
    .unwrap();
    let (sg, st) = from_yacc(&grm, Minimiser::Pager).unwrap();
    println!("{}", sg.pp_closed_states(&grm));

    let mut lexerdef = LRNonStreamingLexerDef::<DefaultLexerTypes<u32>>::from_str(LEX).unwrap();
    let rule_ids = grm
        .tokens_map()
        .iter()
        .map(|(&n, &i)| (n, i.as_storaget()))
        .collect::<std::collections::HashMap<&str, u32>>();
    let _ = lexerdef.set_rule_ids(&rule_ids);
    let lexer = lexerdef.lexer("a x");
    let (tree, errs) = RTParserBuilder::new(&grm, &st)
        .recoverer(RecoveryKind::None)
        .parse_generictree(&lexer);
    let pp = tree.as_ref().map(|t| t.pp(&grm, "a x"));
    println!("tree: {:?}\nerrors: {:?}", pp, errs.len());

    // Clause: "If a grammar is LR(1) (the canonical, unmerged LR(1) construction has no
    // conflicts) then table construction reports no conflicts for it".
    let conflicts = st.conflicts().map(|c| format!("{}{}", c.pp_sr(&grm), c.pp_rr(&grm)));
    // Clause: "the parser it yields produces, for every input, the same parse tree [...] as a
    // canonical LR(1) parser": canonical LR(1) accepts "a x" as S(B(a) x).
    assert!(
        conflicts.is_none() && errs.is_empty(),
        "LR(1) grammar (canonical LR(1) has no conflicts, L(G) = {{ a x }}):\n\
         conflicts reported by lrtable: {:?}\n\
         syntax errors reported by the RTParserBuilder parser on the sentence \"a x\": {} (tree: {:?})",
        conflicts,
        errs.len(),
        pp
    );
}
