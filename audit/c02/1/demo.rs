// C02 audit demo 1.
//
// Property C02: "If a grammar is LR(1) (the canonical, unmerged LR(1) construction has no
// conflicts) then table construction reports no conflicts for it, and the parser it yields
// produces, for every input, the same parse tree or the same first-error position as a canonical
// LR(1) parser. The minimised automaton never has more states than the canonical one."
//
// Input: an LR(1) grammar one of whose rules (`U`) derives no terminal string. The textbook
// closure adds `[A -> . 'y', b]` for `[S -> 'x' . A U, $]` only for b in FIRST(U $), which is
// empty, i.e. it adds nothing. `Itemset::close` adds the item with an *empty* lookahead set; the
// item then yields a shift of 'y' (and two extra states), which collides with the genuine
// `reduce B -> 'x'` on 'y'.
//
// The test contains its own small canonical LR(1) construction so that "the grammar is LR(1)",
// the canonical number of states and the canonical parse are established independently.
use std::{
    collections::{BTreeMap, BTreeSet, HashMap},
    error::Error,
    fmt,
};

use cfgrammar::{
    PIdx, RIdx, Span, Symbol,
    yacc::{YaccGrammar, YaccKind, YaccOriginalActionKind},
};
use lrpar::{
    LexError, LexParseError, Lexeme, Lexer, LexerTypes, NonStreamingLexer, RTParserBuilder,
    RecoveryKind,
};
use lrtable::{Minimiser, from_yacc};

const GRAMMAR: &str = "
%start S
%%
S: B 'y' | 'x' A U ;
B: 'x' ;
A: 'y' ;
U: U 'u' ;
";

// ------------------------------------------------------------------ a minimal lexer
#[derive(Clone, Copy, Debug, Eq, Hash, PartialEq)]
struct Lx {
    id: u16,
    start: usize,
    len: usize,
    faulty: bool,
}
impl Lexeme<u16> for Lx {
    fn new(id: u16, start: usize, len: usize) -> Self {
        Lx { id, start, len, faulty: false }
    }
    fn new_faulty(id: u16, start: usize, len: usize) -> Self {
        Lx { id, start, len, faulty: true }
    }
    fn tok_id(&self) -> u16 {
        self.id
    }
    fn span(&self) -> Span {
        Span::new(self.start, self.start + self.len)
    }
    fn faulty(&self) -> bool {
        self.faulty
    }
}
impl fmt::Display for Lx {
    fn fmt(&self, f: &mut fmt::Formatter) -> fmt::Result {
        write!(f, "Lx[{}]", self.start)
    }
}
#[derive(Debug)]
struct LErr;
impl LexError for LErr {
    fn span(&self) -> Span {
        unreachable!()
    }
}
impl Error for LErr {}
impl fmt::Display for LErr {
    fn fmt(&self, _: &mut fmt::Formatter) -> fmt::Result {
        unreachable!()
    }
}
#[derive(Debug, Clone)]
struct LT;
impl LexerTypes for LT {
    type LexemeT = Lx;
    type StorageT = u16;
    type LexErrorT = LErr;
}
struct Lxr(Vec<Lx>);
impl Lexer<LT> for Lxr {
    fn iter<'a>(&'a self) -> Box<dyn Iterator<Item = Result<Lx, LErr>> + 'a> {
        Box::new(self.0.iter().map(|x| Ok(*x)))
    }
}
impl<'input> NonStreamingLexer<'input, LT> for Lxr {
    fn span_str(&self, _: Span) -> &'input str {
        ""
    }
    fn span_lines_str(&self, _: Span) -> &'input str {
        ""
    }
    fn line_col(&self, _: Span) -> ((usize, usize), (usize, usize)) {
        ((1, 1), (1, 1))
    }
}

// ------------------------------------------------------------------ textbook canonical LR(1)
#[derive(Clone, Copy, Debug, PartialEq, Eq, PartialOrd, Ord, Hash)]
enum Sy {
    T(usize),
    R(usize),
}
type Item = (usize, usize, usize); // (production, dot, lookahead token)
struct G {
    prods: Vec<Vec<Sy>>,
    prod_rule: Vec<usize>,
    rule_prods: Vec<Vec<usize>>,
    eof: usize,
    start_prod: usize,
    nullable: Vec<bool>,
    first: Vec<BTreeSet<usize>>,
}
fn model(grm: &YaccGrammar<u16>) -> G {
    let nrules = usize::from(grm.rules_len());
    let mut prods = Vec::new();
    let mut prod_rule = Vec::new();
    let mut rule_prods = vec![Vec::new(); nrules];
    for p in 0..usize::from(grm.prods_len()) {
        let pidx = PIdx(p as u16);
        prods.push(
            grm.prod(pidx)
                .iter()
                .map(|s| match *s {
                    Symbol::Rule(r) => Sy::R(usize::from(r)),
                    Symbol::Token(t) => Sy::T(usize::from(t)),
                })
                .collect::<Vec<_>>(),
        );
        let r = usize::from(grm.prod_to_rule(pidx));
        prod_rule.push(r);
        rule_prods[r].push(p);
    }
    let mut g = G {
        prods,
        prod_rule,
        rule_prods,
        eof: usize::from(grm.eof_token_idx()),
        start_prod: usize::from(grm.start_prod()),
        nullable: vec![false; nrules],
        first: vec![BTreeSet::new(); nrules],
    };
    loop {
        let mut ch = false;
        for p in 0..g.prods.len() {
            let r = g.prod_rule[p];
            let mut alln = true;
            for s in g.prods[p].clone() {
                match s {
                    Sy::T(t) => {
                        ch |= g.first[r].insert(t);
                        alln = false;
                        break;
                    }
                    Sy::R(q) => {
                        for t in g.first[q].clone() {
                            ch |= g.first[r].insert(t);
                        }
                        if !g.nullable[q] {
                            alln = false;
                            break;
                        }
                    }
                }
            }
            if alln && !g.nullable[r] {
                g.nullable[r] = true;
                ch = true;
            }
        }
        if !ch {
            return g;
        }
    }
}
fn first_seq(g: &G, seq: &[Sy], la: usize) -> BTreeSet<usize> {
    let mut out = BTreeSet::new();
    for s in seq {
        match *s {
            Sy::T(t) => {
                out.insert(t);
                return out;
            }
            Sy::R(q) => {
                out.extend(g.first[q].iter().cloned());
                if !g.nullable[q] {
                    return out;
                }
            }
        }
    }
    out.insert(la);
    out
}
fn closure(g: &G, kernel: &BTreeSet<Item>) -> BTreeSet<Item> {
    let mut set = kernel.clone();
    let mut todo: Vec<Item> = kernel.iter().cloned().collect();
    while let Some((p, d, la)) = todo.pop() {
        if d < g.prods[p].len() {
            if let Sy::R(b) = g.prods[p][d] {
                // for each terminal b in FIRST(beta a) add [B -> . gamma, b]
                for t in first_seq(g, &g.prods[p][d + 1..], la) {
                    for &q in &g.rule_prods[b] {
                        if set.insert((q, 0, t)) {
                            todo.push((q, 0, t));
                        }
                    }
                }
            }
        }
    }
    set
}
#[derive(Clone, Copy, Debug, PartialEq, Eq, PartialOrd, Ord)]
enum Act {
    Shift(usize),
    Reduce(usize),
    Accept,
}
struct Canon {
    states: Vec<BTreeSet<Item>>,
    edges: Vec<BTreeMap<Sy, usize>>,
    actions: Vec<BTreeMap<usize, BTreeSet<Act>>>,
}
fn canonical(g: &G) -> Canon {
    let s0 = closure(g, &[(g.start_prod, 0, g.eof)].into_iter().collect());
    let mut ids: HashMap<BTreeSet<Item>, usize> = HashMap::new();
    ids.insert(s0.clone(), 0);
    let mut states = vec![s0];
    let mut edges: Vec<BTreeMap<Sy, usize>> = vec![BTreeMap::new()];
    let mut i = 0;
    while i < states.len() {
        let mut kern: BTreeMap<Sy, BTreeSet<Item>> = BTreeMap::new();
        for &(p, d, la) in &states[i] {
            if d < g.prods[p].len() {
                kern.entry(g.prods[p][d]).or_default().insert((p, d + 1, la));
            }
        }
        for (sy, k) in kern {
            let c = closure(g, &k);
            let id = *ids.entry(c.clone()).or_insert_with(|| {
                states.push(c);
                edges.push(BTreeMap::new());
                states.len() - 1
            });
            edges[i].insert(sy, id);
        }
        i += 1;
    }
    let mut actions = Vec::new();
    for (i, st) in states.iter().enumerate() {
        let mut m: BTreeMap<usize, BTreeSet<Act>> = BTreeMap::new();
        for &(p, d, la) in st {
            if d == g.prods[p].len() {
                let a = if p == g.start_prod { Act::Accept } else { Act::Reduce(p) };
                m.entry(la).or_default().insert(a);
            } else if let Sy::T(t) = g.prods[p][d] {
                m.entry(t).or_default().insert(Act::Shift(edges[i][&Sy::T(t)]));
            }
        }
        actions.push(m);
    }
    Canon { states, edges, actions }
}
/// Ok(tree) or Err(index of the token at which the error is detected).
fn canon_parse(g: &G, c: &Canon, toks: &[usize]) -> Result<String, usize> {
    let mut st = vec![0usize];
    let mut vals: Vec<String> = Vec::new();
    let mut i = 0;
    loop {
        let la = if i < toks.len() { toks[i] } else { g.eof };
        let a = match c.actions[*st.last().unwrap()].get(&la) {
            None => return Err(i),
            Some(a) => *a.iter().next().unwrap(),
        };
        match a {
            Act::Shift(n) => {
                st.push(n);
                vals.push(format!("{}", la));
                i += 1;
            }
            Act::Reduce(p) => {
                let n = g.prods[p].len();
                let kids = vals.split_off(vals.len() - n);
                st.truncate(st.len() - n);
                let r = g.prod_rule[p];
                st.push(c.edges[*st.last().unwrap()][&Sy::R(r)]);
                vals.push(format!("({} {})", r, kids.join(" ")));
            }
            Act::Accept => return Ok(vals.pop().unwrap()),
        }
    }
}

#[test]
fn lr1_grammar_with_unproductive_rule() {
    let grm = YaccGrammar::<u16>::new_with_storaget(
        YaccKind::Original(YaccOriginalActionKind::GenericParseTree),
        GRAMMAR,
    )
    .unwrap();

    // The grammar is LR(1): the canonical construction has no conflicts.
    let g = model(&grm);
    let canon = canonical(&g);
    for m in &canon.actions {
        for acts in m.values() {
            assert_eq!(acts.len(), 1, "premise: the canonical LR(1) automaton has no conflicts");
        }
    }

    let (sg, st) = from_yacc(&grm, Minimiser::Pager).unwrap();
    println!("{}", sg.pp_closed_states(&grm));
    let mut failures = Vec::new();

    // Clause 1: "table construction reports no conflicts for it".
    if let Some(c) = st.conflicts() {
        failures.push(format!(
            "clause 'table construction reports no conflicts for it' violated: {} shift/reduce, {} reduce/reduce\n{}{}",
            c.sr_len(),
            c.rr_len(),
            c.pp_sr(&grm),
            c.pp_rr(&grm)
        ));
    }

    // Clause 3: "The minimised automaton never has more states than the canonical one."
    if usize::from(sg.all_states_len()) > canon.states.len() {
        failures.push(format!(
            "clause 'the minimised automaton never has more states than the canonical one' violated: {} states, canonical LR(1) has {}",
            usize::from(sg.all_states_len()),
            canon.states.len()
        ));
    }

    // Clause 2: "the parser it yields produces, for every input, the same parse tree or the same
    // first-error position as a canonical LR(1) parser".
    let x = usize::from(grm.token_idx("x").unwrap());
    let y = usize::from(grm.token_idx("y").unwrap());
    let u = usize::from(grm.token_idx("u").unwrap());
    for toks in [vec![x, y], vec![x, y, u], vec![x, y, y], vec![x], vec![y]] {
        let want = canon_parse(&g, &canon, &toks);
        let lexer = Lxr(toks.iter().enumerate().map(|(i, &t)| Lx::new(t as u16, i, 1)).collect());
        let pb = RTParserBuilder::<u16, LT>::new(&grm, &st).recoverer(RecoveryKind::None);
        let (tree, errs) = pb.parse_map(
            &lexer,
            &|l: Lx| format!("{}", l.tok_id()),
            &|r: RIdx<u16>, kids: Vec<String>| format!("({} {})", usize::from(r), kids.join(" ")),
        );
        let got = match (tree, errs.first()) {
            (Some(t), None) => Ok(t),
            (None, Some(LexParseError::ParseError(e))) => Err(e.lexeme().span().start()),
            _ => panic!("unexpected parse outcome"),
        };
        if got != want {
            failures.push(format!(
                "clause 'same parse tree or the same first-error position as a canonical LR(1) parser' violated on token sequence {:?}: parser gives {:?}, canonical LR(1) parser gives {:?}",
                toks, got, want
            ));
        }
    }
    assert!(failures.is_empty(), "\n{}", failures.join("\n"));
}
