// C19 (adjacent): "... without panicking ... and error pretty-printing reports these positions."
//
// SpannedDiagnosticFormatter::format_conflicts (lrpar/src/lib/diagnostics.rs, the anchored file)
// looks productions up with `ast.prods[usize::from(pidx)]`, but the PIdx values stored in
// `Conflicts` are *grammar* production indices. The productions cfgrammar adds (for Eco grammars
// with %implicit_tokens: `~: "ws" ~ | ;` and `^~: ~ S`, plus `^: ...`) sit after the AST's
// productions, so a conflict whose reduce side is one of them indexes past the end of `ast.prods`
// and the conflict pretty-printer panics instead of printing lines/columns.
//
// Placement: nimbleparse/tests/audit_demo_2.rs
// Run:       cargo test -p nimbleparse --offline --test audit_demo_2
use cfgrammar::yacc::{YaccGrammar, YaccKind, ast::ASTWithValidityInfo};
use lrlex::DefaultLexerTypes;
use lrpar::diagnostics::SpannedDiagnosticFormatter;
use lrtable::{Minimiser, from_yacc};
use std::{
    panic::{AssertUnwindSafe, catch_unwind},
    path::PathBuf,
};

#[test]
fn conflict_on_an_implicit_token_is_pretty_printed() {
    // The implicit token 'ws' is also used explicitly, so in the state after 'a' the parser can
    // shift 'ws' or reduce the (added) empty production of the implicit rule `~`.
    let src = "%implicit_tokens ws\n%start S\n%%\nS: 'a' 'ws' 'b' | 'a' 'b';\n";
    let astv = ASTWithValidityInfo::new(YaccKind::Eco, src);
    assert!(astv.is_valid());
    let grm = YaccGrammar::<u32>::new_from_ast_with_validity_info(&astv).unwrap();
    let (sgraph, stable) = from_yacc(&grm, Minimiser::Pager).unwrap();
    let conflicts = stable.conflicts().expect("the grammar has shift/reduce conflicts");
    assert!(conflicts.sr_len() > 0);
    // Sanity: the plain-text conflict printer copes with the same conflicts.
    assert!(conflicts.pp_sr(&grm).contains("Reduce(~:)"));

    let path = PathBuf::from("g.y");
    let diag = SpannedDiagnosticFormatter::new(src, &path);
    let out = catch_unwind(AssertUnwindSafe(|| {
        diag.format_conflicts::<DefaultLexerTypes<u32>>(
            &grm,
            astv.ast(),
            conflicts,
            &sgraph,
            &stable,
        )
    }));
    let out = out.expect(
        "error pretty-printing must not panic: format_conflicts indexed ast.prods with the PIdx \
         of a production that cfgrammar added",
    );
    // The shifted token 'ws' is first mentioned on line 1, column 18 ("%implicit_tokens ws").
    assert!(
        out.contains("Shift/Reduce conflict, can shift 'ws' or reduce '~'"),
        "{out}"
    );
    assert!(out.contains("1| %implicit_tokens ws"), "{out}");
}
