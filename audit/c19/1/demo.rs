// C19: "error pretty-printing reports these positions" / "without panicking".
//
// The shipped manual-lexer example (and the book chapter doc/src/manuallexer.md it mirrors) builds
// its `LRNonStreamingLexer` with `NewlineCache::new()` and never feeds the input text into it.
// `LexParseError::pp` -> `NonStreamingLexer::line_col` -> `byte_to_line_num_and_col_num(..).unwrap()`
// therefore panics on the first syntax (or evaluation) error instead of reporting line/column.
//
// Placement: lrlex/examples/calc_manual_lex/tests/audit_demo_1.rs
// Run:       cargo test -p calc_manual_lex --offline --test audit_demo_1
use std::{
    io::Write,
    process::{Command, Stdio},
};

fn run(input: &str) -> (bool, String, String) {
    let mut child = Command::new(env!("CARGO_BIN_EXE_calc_manual_lex"))
        .stdin(Stdio::piped())
        .stdout(Stdio::piped())
        .stderr(Stdio::piped())
        .spawn()
        .unwrap();
    child
        .stdin
        .take()
        .unwrap()
        .write_all(input.as_bytes())
        .unwrap();
    let out = child.wait_with_output().unwrap();
    (
        out.status.success(),
        String::from_utf8_lossy(&out.stdout).into_owned(),
        String::from_utf8_lossy(&out.stderr).into_owned(),
    )
}

#[test]
fn sanity_valid_input_works() {
    let (ok, stdout, _) = run("2 + 3\n");
    assert!(ok);
    assert!(stdout.contains("Result: 5"), "{stdout}");
}

#[test]
fn syntax_error_is_reported_with_line_and_column() {
    // "2 +" : the parser hits EOF (byte 3) after '+'. One line, no newline before byte 3, three
    // characters since the line began => line 1 column 4.
    let (ok, stdout, stderr) = run("2 +\n");
    assert!(
        ok && !stderr.contains("panicked"),
        "error pretty-printing must not panic; stderr:\n{stderr}"
    );
    assert!(
        stdout.contains("Parsing error at line 1 column 4."),
        "pp must report line = 1 + #newlines before the offset, col = 1 + #chars since line start; stdout:\n{stdout}"
    );
}

#[test]
fn evaluation_error_is_reported_with_line_and_column() {
    // u64 overflow in the evaluator: the example calls lexer.line_col(span) directly.
    let (ok, _, stderr) = run("18446744073709551615 + 1\n");
    assert!(
        ok && !stderr.contains("panicked"),
        "line_col must not panic; stderr:\n{stderr}"
    );
    assert!(
        stderr.contains("Evaluation error at line 1 column 1"),
        "stderr:\n{stderr}"
    );
}
