// C01 audit demo 1: a generated parser that does not recognise the language of the grammar it
// was generated for (CTParserBuilder keeps stale output when the grammar file's mtime is older
// than the output file, although the grammar's rules changed).
//
// Place in lrpar/tests/audit_demo_1.rs and run
//   cargo test -p lrpar --offline --test audit_demo_1
#![allow(deprecated)]
use std::{
    error::Error,
    fmt::{self, Debug},
    hash::Hash,
    marker::PhantomData,
};

use cfgrammar::Span;
use lrpar::{LexError, Lexeme, Lexer, LexerTypes, NonStreamingLexer, RTParserBuilder, RecoveryKind};
use num_traits::{AsPrimitive, PrimInt, Unsigned};

use std::{fs, path::Path, process::Command};

use cfgrammar::yacc::{YaccKind, YaccOriginalActionKind};
use lrpar::CTParserBuilder;

// ---- minimal lexer plumbing (test-local) -------------------------------------------------
#[derive(Clone, Copy, Debug, Eq, Hash, PartialEq)]
pub struct Lx<S> {
    start: usize,
    len: usize,
    faulty: bool,
    tok: S,
}
impl<S: Copy + Debug + Eq + Hash> Lexeme<S> for Lx<S> {
    fn new(tok: S, start: usize, len: usize) -> Self {
        Lx { start, len, faulty: false, tok }
    }
    fn new_faulty(tok: S, start: usize, len: usize) -> Self {
        Lx { start, len, faulty: true, tok }
    }
    fn tok_id(&self) -> S {
        self.tok
    }
    fn span(&self) -> Span {
        Span::new(self.start, self.start + self.len)
    }
    fn faulty(&self) -> bool {
        self.faulty
    }
}
impl<S> fmt::Display for Lx<S> {
    fn fmt(&self, f: &mut fmt::Formatter) -> fmt::Result {
        write!(f, "Lx")
    }
}
#[derive(Debug)]
pub struct LE;
impl fmt::Display for LE {
    fn fmt(&self, f: &mut fmt::Formatter) -> fmt::Result {
        write!(f, "LE")
    }
}
impl Error for LE {}
impl LexError for LE {
    fn span(&self) -> Span {
        Span::new(0, 0)
    }
}
#[derive(Debug, Clone)]
pub struct LT<S>(PhantomData<S>);
impl<S: 'static + Debug + Hash + PrimInt + Unsigned> LexerTypes for LT<S>
where
    usize: AsPrimitive<S>,
{
    type LexemeT = Lx<S>;
    type StorageT = S;
    type LexErrorT = LE;
}
pub struct Lxr<S> {
    lexemes: Vec<Lx<S>>,
}
impl<S: 'static + Debug + Hash + PrimInt + Unsigned> Lexer<LT<S>> for Lxr<S>
where
    usize: AsPrimitive<S>,
{
    fn iter<'a>(&'a self) -> Box<dyn Iterator<Item = Result<Lx<S>, LE>> + 'a> {
        Box::new(self.lexemes.iter().map(|x| Ok(*x)))
    }
}
impl<'input, S: 'static + Debug + Hash + PrimInt + Unsigned> NonStreamingLexer<'input, LT<S>> for Lxr<S>
where
    usize: AsPrimitive<S>,
{
    fn span_str(&self, _: Span) -> &'input str {
        ""
    }
    fn span_lines_str(&self, _: Span) -> &'input str {
        ""
    }
    fn line_col(&self, _: Span) -> ((usize, usize), (usize, usize)) {
        ((1, 1), (1, 1))
    }
}
// ------------------------------------------------------------------------------------------

const G1: &str = "%start S\n%token a b\n%%\nS: 'a' 'b';\n";
const G2: &str = "%start S\n%token a b\n%%\nS: 'b' 'a';\n";

/// One "build.rs run" (CTParserBuilder refuses to write the same output path twice in one
/// process, so every build runs in a child process): build $AUDIT_DIR/g.y into $AUDIT_DIR/g.y.rs.
#[test]
fn worker() {
    let Ok(dir) = std::env::var("AUDIT_DIR") else { return };
    let dir = Path::new(&dir);
    let ctp = CTParserBuilder::<LT<u32>>::new()
        .yacckind(YaccKind::Original(YaccOriginalActionKind::GenericParseTree))
        .grammar_path(dir.join("g.y"))
        .output_path(dir.join("g.y.rs"))
        .build()
        .unwrap();
    fs::write(dir.join("regenerated"), format!("{}", ctp.regenerated())).unwrap();
}

fn run_build(dir: &Path) -> bool {
    let st = Command::new(std::env::current_exe().unwrap())
        .args(["--exact", "worker"])
        .env("AUDIT_DIR", dir)
        .status()
        .unwrap();
    assert!(st.success());
    fs::read_to_string(dir.join("regenerated")).unwrap() == "true"
}

/// Extract the bytes of `const <name>: &[u8] = &[..];` from the generated module.
fn data(out: &str, name: &str) -> Vec<u8> {
    let decl = format!("const {}: &[u8] = &[", name);
    let start = out.find(&decl).unwrap() + decl.len();
    let end = start + out[start..].find("];").unwrap();
    out[start..end]
        .split(',')
        .map(|x| x.trim().trim_end_matches("u8"))
        .filter(|x| !x.is_empty())
        .map(|x| x.parse::<u8>().unwrap())
        .collect()
}

#[test]
fn generated_parser_recognises_the_grammars_language() {
    if std::env::var("AUDIT_DIR").is_ok() {
        return;
    }
    let tmp = tempfile::tempdir().unwrap();
    let dir = tmp.path();
    let (grmp, outp) = (dir.join("g.y"), dir.join("g.y.rs"));

    // Build 1: g.y is G1, whose language is { a b }.
    fs::write(&grmp, G1).unwrap();
    assert!(run_build(dir));

    // g.y is replaced by G2 (same tokens, language { b a }). As after `mv`, `cp -p`, `rsync -t`,
    // unpacking an archive (or when the file is saved while build 1 is still running, before the
    // output is written), g.y's modification time is older than that of the output file.
    fs::write(&grmp, G2).unwrap();
    let out_mtime = filetime::FileTime::from_last_modification_time(&fs::metadata(&outp).unwrap());
    filetime::set_file_mtime(&grmp, filetime::FileTime::from_unix_time(out_mtime.unix_seconds() - 3600, 0)).unwrap();

    // Build 2.
    let regenerated = run_build(dir);

    // Which language does the parser generated for g.y (now G2) recognise?
    let out = fs::read_to_string(&outp).unwrap();
    let config = lrpar::ctbuilder::wincode::config::Configuration::default().with_varint_encoding();
    let pd = lrpar::ctbuilder::_reconstitute::<_, u32>(&data(&out, "__GRM_DATA"), &data(&out, "__STABLE_DATA"), config);
    let (grm, st) = (pd.grm(), pd.stable());
    let t = |n: &str| grm.token_idx(n).unwrap().as_storaget();
    let accepts = |toks: &[u32]| {
        let lexer = Lxr { lexemes: toks.iter().enumerate().map(|(i, t)| Lx::new(*t, i, 1)).collect() };
        let pb: RTParserBuilder<u32, LT<u32>> = RTParserBuilder::new(grm, st).recoverer(RecoveryKind::None);
        let (tree, errs) = pb.parse_generictree(&lexer);
        tree.is_some() && errs.is_empty()
    };
    let (ba, ab) = (accepts(&[t("b"), t("a")]), accepts(&[t("a"), t("b")]));
    eprintln!("build 2 regenerated: {regenerated}; generated parser accepts 'b a': {ba}, 'a b': {ab}");
    assert!(
        ba,
        "C01 (construction reports no conflicts => the parser accepts every sentence of the grammar): \
         g.y is `S: 'b' 'a';` but the parser generated for it rejects 'b a'"
    );
    assert!(
        !ab,
        "C01 (... and reports an error for every non-sentence): g.y is `S: 'b' 'a';` but the parser \
         generated for it accepts 'a b'"
    );
}
