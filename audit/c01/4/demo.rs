// C01 audit demo 4: with StorageT = u64 (accepted by every trait bound of cfgrammar, lrtable and
// lrpar; table construction succeeds and sentences parse) the parser panics instead of reporting
// an error for a non-sentence whose error is detected at the end of the input (builds with
// debug assertions, i.e. the default `cargo build` / `cargo test` profile).
//
// Place in lrpar/tests/audit_demo_4.rs and run
//   cargo test -p lrpar --offline --test audit_demo_4
#![allow(deprecated)]
use std::{
    error::Error,
    fmt::{self, Debug},
    hash::Hash,
    marker::PhantomData,
};

use cfgrammar::{
    Span,
    yacc::{YaccGrammar, YaccKind, YaccOriginalActionKind},
};
use lrpar::{LexError, Lexeme, Lexer, LexerTypes, NonStreamingLexer, RTParserBuilder, RecoveryKind};
use lrtable::{Minimiser, from_yacc};
use num_traits::{AsPrimitive, PrimInt, Unsigned};

// ---- minimal lexer plumbing (test-local) -------------------------------------------------
#[derive(Clone, Copy, Debug, Eq, Hash, PartialEq)]
pub struct Lx<S> {
    start: usize,
    len: usize,
    faulty: bool,
    tok: S,
}
impl<S: Copy + Debug + Eq + Hash> Lexeme<S> for Lx<S> {
    fn new(tok: S, start: usize, len: usize) -> Self {
        Lx { start, len, faulty: false, tok }
    }
    fn new_faulty(tok: S, start: usize, len: usize) -> Self {
        Lx { start, len, faulty: true, tok }
    }
    fn tok_id(&self) -> S {
        self.tok
    }
    fn span(&self) -> Span {
        Span::new(self.start, self.start + self.len)
    }
    fn faulty(&self) -> bool {
        self.faulty
    }
}
impl<S> fmt::Display for Lx<S> {
    fn fmt(&self, f: &mut fmt::Formatter) -> fmt::Result {
        write!(f, "Lx")
    }
}
#[derive(Debug)]
pub struct LE;
impl fmt::Display for LE {
    fn fmt(&self, f: &mut fmt::Formatter) -> fmt::Result {
        write!(f, "LE")
    }
}
impl Error for LE {}
impl LexError for LE {
    fn span(&self) -> Span {
        Span::new(0, 0)
    }
}
#[derive(Debug, Clone)]
pub struct LT<S>(PhantomData<S>);
impl<S: 'static + Debug + Hash + PrimInt + Unsigned> LexerTypes for LT<S>
where
    usize: AsPrimitive<S>,
{
    type LexemeT = Lx<S>;
    type StorageT = S;
    type LexErrorT = LE;
}
pub struct Lxr<S> {
    lexemes: Vec<Lx<S>>,
}
impl<S: 'static + Debug + Hash + PrimInt + Unsigned> Lexer<LT<S>> for Lxr<S>
where
    usize: AsPrimitive<S>,
{
    fn iter<'a>(&'a self) -> Box<dyn Iterator<Item = Result<Lx<S>, LE>> + 'a> {
        Box::new(self.lexemes.iter().map(|x| Ok(*x)))
    }
}
impl<'input, S: 'static + Debug + Hash + PrimInt + Unsigned> NonStreamingLexer<'input, LT<S>> for Lxr<S>
where
    usize: AsPrimitive<S>,
{
    fn span_str(&self, _: Span) -> &'input str {
        ""
    }
    fn span_lines_str(&self, _: Span) -> &'input str {
        ""
    }
    fn line_col(&self, _: Span) -> ((usize, usize), (usize, usize)) {
        ((1, 1), (1, 1))
    }
}
// ------------------------------------------------------------------------------------------

/// Ok((accepted, number of errors)) or Err(panic message)
fn parse(rk: RecoveryKind, input: &[&str]) -> Result<(bool, usize), String> {
    let input: Vec<String> = input.iter().map(|x| x.to_string()).collect();
    std::panic::catch_unwind(move || {
        let grm = YaccGrammar::<u64>::new_with_storaget(
            YaccKind::Original(YaccOriginalActionKind::GenericParseTree),
            "%start S\n%%\nS: 'a' 'b';\n",
        )
        .unwrap();
        let (_, st) = from_yacc(&grm, Minimiser::Pager).unwrap();
        assert!(st.conflicts().is_none());
        let lexemes = input
            .iter()
            .enumerate()
            .map(|(i, n)| Lx::new(grm.token_idx(n).unwrap().as_storaget(), i, 1))
            .collect();
        let lexer = Lxr { lexemes };
        let pb: RTParserBuilder<u64, LT<u64>> = RTParserBuilder::new(&grm, &st).recoverer(rk);
        let (tree, errs) = pb.parse_generictree(&lexer);
        (tree.is_some(), errs.len())
    })
    .map_err(|e| e.downcast_ref::<String>().cloned().or_else(|| e.downcast_ref::<&str>().map(|s| s.to_string())).unwrap_or_default())
}

#[test]
fn u64_non_sentence_is_reported_as_error() {
    // A sentence parses fine with u64 indices...
    assert_eq!(parse(RecoveryKind::None, &["a", "b"]), Ok((true, 0)));
    // ... and so does a non-sentence whose error is not at the end of the input ...
    assert_eq!(parse(RecoveryKind::None, &["b"]), Ok((false, 1)));
    // ... but `a` (error detected when EOF is the lookahead) must be *reported*:
    for rk in [RecoveryKind::None, RecoveryKind::CPCTPlus] {
        let r = parse(rk, &["a"]);
        eprintln!("{:?} on `a`: {:?}", rk, r);
        match r {
            Ok((_, nerrs)) => assert!(nerrs > 0, "C01: a non-sentence must be reported as an error"),
            Err(p) => panic!(
                "C01: construction reported no conflicts, so the parser must report an error for the \
                 non-sentence `a`; instead it panicked: {p}"
            ),
        }
    }
}
