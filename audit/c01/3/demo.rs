// C01 audit demo 3: the parser accepts, without reporting an error, a lexeme sequence that it
// has not consumed: a lexeme whose token id is `grm.eof_token_idx()` (a valid `TIdx` of the
// grammar: it is produced by `grm.iter_tidxs()` and has a column in the action table) makes
// `Parser::lr` take the Accept action in the middle of the input. The returned tree's leaves are
// then not the input lexemes.
//
// Place in lrpar/tests/audit_demo_3.rs and run
//   cargo test -p lrpar --offline --test audit_demo_3
#![allow(deprecated)]
use std::{
    error::Error,
    fmt::{self, Debug},
    hash::Hash,
    marker::PhantomData,
};

use cfgrammar::{
    Span,
    yacc::{YaccGrammar, YaccKind, YaccOriginalActionKind},
};
use lrpar::{LexError, Lexeme, Lexer, LexerTypes, Node, NonStreamingLexer, RTParserBuilder, RecoveryKind};
use lrtable::{Minimiser, from_yacc};
use num_traits::{AsPrimitive, PrimInt, Unsigned};

// ---- minimal lexer plumbing (test-local) -------------------------------------------------
#[derive(Clone, Copy, Debug, Eq, Hash, PartialEq)]
pub struct Lx<S> {
    start: usize,
    len: usize,
    faulty: bool,
    tok: S,
}
impl<S: Copy + Debug + Eq + Hash> Lexeme<S> for Lx<S> {
    fn new(tok: S, start: usize, len: usize) -> Self {
        Lx { start, len, faulty: false, tok }
    }
    fn new_faulty(tok: S, start: usize, len: usize) -> Self {
        Lx { start, len, faulty: true, tok }
    }
    fn tok_id(&self) -> S {
        self.tok
    }
    fn span(&self) -> Span {
        Span::new(self.start, self.start + self.len)
    }
    fn faulty(&self) -> bool {
        self.faulty
    }
}
impl<S> fmt::Display for Lx<S> {
    fn fmt(&self, f: &mut fmt::Formatter) -> fmt::Result {
        write!(f, "Lx")
    }
}
#[derive(Debug)]
pub struct LE;
impl fmt::Display for LE {
    fn fmt(&self, f: &mut fmt::Formatter) -> fmt::Result {
        write!(f, "LE")
    }
}
impl Error for LE {}
impl LexError for LE {
    fn span(&self) -> Span {
        Span::new(0, 0)
    }
}
#[derive(Debug, Clone)]
pub struct LT<S>(PhantomData<S>);
impl<S: 'static + Debug + Hash + PrimInt + Unsigned> LexerTypes for LT<S>
where
    usize: AsPrimitive<S>,
{
    type LexemeT = Lx<S>;
    type StorageT = S;
    type LexErrorT = LE;
}
pub struct Lxr<S> {
    lexemes: Vec<Lx<S>>,
}
impl<S: 'static + Debug + Hash + PrimInt + Unsigned> Lexer<LT<S>> for Lxr<S>
where
    usize: AsPrimitive<S>,
{
    fn iter<'a>(&'a self) -> Box<dyn Iterator<Item = Result<Lx<S>, LE>> + 'a> {
        Box::new(self.lexemes.iter().map(|x| Ok(*x)))
    }
}
impl<'input, S: 'static + Debug + Hash + PrimInt + Unsigned> NonStreamingLexer<'input, LT<S>> for Lxr<S>
where
    usize: AsPrimitive<S>,
{
    fn span_str(&self, _: Span) -> &'input str {
        ""
    }
    fn span_lines_str(&self, _: Span) -> &'input str {
        ""
    }
    fn line_col(&self, _: Span) -> ((usize, usize), (usize, usize)) {
        ((1, 1), (1, 1))
    }
}
// ------------------------------------------------------------------------------------------

fn leaves(n: &Node<Lx<u16>, u16>, out: &mut Vec<Lx<u16>>) {
    match n {
        Node::Term { lexeme } => out.push(*lexeme),
        Node::Nonterm { nodes, .. } => nodes.iter().for_each(|k| leaves(k, out)),
    }
}

#[test]
fn accept_with_unconsumed_input() {
    let grm = YaccGrammar::<u16>::new_with_storaget(
        YaccKind::Original(YaccOriginalActionKind::GenericParseTree),
        "%start S\n%%\nS: 'a';\n",
    )
    .unwrap();
    let (_, st) = from_yacc(&grm, Minimiser::Pager).unwrap();
    assert!(st.conflicts().is_none());
    let a = grm.token_idx("a").unwrap().as_storaget();
    let eof = grm.eof_token_idx().as_storaget();
    assert!(grm.iter_tidxs().any(|t| t == grm.eof_token_idx()));
    // a <eof> a a : not a sentence of S: 'a' under any reading.
    let lexemes = vec![Lx::new(a, 0, 1), Lx::new(eof, 1, 0), Lx::new(a, 1, 1), Lx::new(a, 2, 1)];
    for rk in [RecoveryKind::None, RecoveryKind::CPCTPlus] {
        let lexer = Lxr { lexemes: lexemes.clone() };
        let pb: RTParserBuilder<u16, LT<u16>> = RTParserBuilder::new(&grm, &st).recoverer(rk);
        let (tree, errs) = pb.parse_generictree(&lexer);
        eprintln!("{:?}: tree {:?}, {} errors", rk, tree, errs.len());
        if errs.is_empty() {
            let mut l = Vec::new();
            leaves(tree.as_ref().expect("accepted without a tree"), &mut l);
            assert_eq!(
                l, lexemes,
                "C01: the parser accepted without reporting an error, so the leaves of the tree \
                 must be the input lexemes in order (here 3 of 4 lexemes were never looked at)"
            );
        }
    }
}
