// C01 audit demo 2: construction reports no conflicts, yet the parser rejects sentences of the
// grammar (shift/reduce cells silently resolved by %left/%right/%nonassoc are not reported by
// StateTable::conflicts(), and the resolution removes sentences from the language).
//
// Place in lrpar/tests/audit_demo_2.rs and run
//   cargo test -p lrpar --offline --test audit_demo_2
#![allow(deprecated)]
use std::{
    error::Error,
    fmt::{self, Debug},
    hash::Hash,
    marker::PhantomData,
};

use cfgrammar::{
    Span,
    yacc::{YaccGrammar, YaccKind, YaccOriginalActionKind},
};
use lrpar::{LexError, Lexeme, Lexer, LexerTypes, NonStreamingLexer, RTParserBuilder, RecoveryKind};
use lrtable::{Minimiser, from_yacc};
use num_traits::{AsPrimitive, PrimInt, Unsigned};

// ---- minimal lexer plumbing (test-local) -------------------------------------------------
#[derive(Clone, Copy, Debug, Eq, Hash, PartialEq)]
pub struct Lx<S> {
    start: usize,
    len: usize,
    faulty: bool,
    tok: S,
}
impl<S: Copy + Debug + Eq + Hash> Lexeme<S> for Lx<S> {
    fn new(tok: S, start: usize, len: usize) -> Self {
        Lx { start, len, faulty: false, tok }
    }
    fn new_faulty(tok: S, start: usize, len: usize) -> Self {
        Lx { start, len, faulty: true, tok }
    }
    fn tok_id(&self) -> S {
        self.tok
    }
    fn span(&self) -> Span {
        Span::new(self.start, self.start + self.len)
    }
    fn faulty(&self) -> bool {
        self.faulty
    }
}
impl<S> fmt::Display for Lx<S> {
    fn fmt(&self, f: &mut fmt::Formatter) -> fmt::Result {
        write!(f, "Lx")
    }
}
#[derive(Debug)]
pub struct LE;
impl fmt::Display for LE {
    fn fmt(&self, f: &mut fmt::Formatter) -> fmt::Result {
        write!(f, "LE")
    }
}
impl Error for LE {}
impl LexError for LE {
    fn span(&self) -> Span {
        Span::new(0, 0)
    }
}
#[derive(Debug, Clone)]
pub struct LT<S>(PhantomData<S>);
impl<S: 'static + Debug + Hash + PrimInt + Unsigned> LexerTypes for LT<S>
where
    usize: AsPrimitive<S>,
{
    type LexemeT = Lx<S>;
    type StorageT = S;
    type LexErrorT = LE;
}
pub struct Lxr<S> {
    lexemes: Vec<Lx<S>>,
}
impl<S: 'static + Debug + Hash + PrimInt + Unsigned> Lexer<LT<S>> for Lxr<S>
where
    usize: AsPrimitive<S>,
{
    fn iter<'a>(&'a self) -> Box<dyn Iterator<Item = Result<Lx<S>, LE>> + 'a> {
        Box::new(self.lexemes.iter().map(|x| Ok(*x)))
    }
}
impl<'input, S: 'static + Debug + Hash + PrimInt + Unsigned> NonStreamingLexer<'input, LT<S>> for Lxr<S>
where
    usize: AsPrimitive<S>,
{
    fn span_str(&self, _: Span) -> &'input str {
        ""
    }
    fn span_lines_str(&self, _: Span) -> &'input str {
        ""
    }
    fn line_col(&self, _: Span) -> ((usize, usize), (usize, usize)) {
        ((1, 1), (1, 1))
    }
}
// ------------------------------------------------------------------------------------------

/// Returns (construction reported conflicts, parser accepted `input` without error).
fn run(grms: &str, input: &[&str]) -> (bool, bool) {
    let grm = YaccGrammar::<u16>::new_with_storaget(YaccKind::Original(YaccOriginalActionKind::GenericParseTree), grms).unwrap();
    let (_, st) = from_yacc(&grm, Minimiser::Pager).unwrap();
    let lexemes = input
        .iter()
        .enumerate()
        .map(|(i, n)| Lx::new(grm.token_idx(n).unwrap().as_storaget(), i, 1))
        .collect();
    let lexer = Lxr { lexemes };
    let pb: RTParserBuilder<u16, LT<u16>> = RTParserBuilder::new(&grm, &st).recoverer(RecoveryKind::None);
    let (tree, errs) = pb.parse_generictree(&lexer);
    (st.conflicts().is_some(), tree.is_some() && errs.is_empty())
}

/// An unambiguous LR(2) grammar: L = { a b c, a b }. `a b c` is derived by S => X b c => a b c.
/// With 'b' declared after 'a', the shift/reduce cell (shift b / reduce X: 'a') is resolved in
/// favour of the shift without being reported.
#[test]
fn left_assoc_unambiguous_grammar() {
    let g = "%start S\n%left 'a'\n%left 'b'\n%%\nS: X 'b' 'c' | 'a' 'b';\nX: 'a';\n";
    let (conflicts, accepted) = run(g, &["a", "b", "c"]);
    eprintln!("conflicts reported: {conflicts}; sentence `a b c` accepted: {accepted}");
    assert!(!conflicts, "precondition: construction reports no conflicts");
    assert!(
        accepted,
        "C01: construction reported no conflicts, so the parser must accept every sentence of the \
         grammar, but it reports an error for `a b c` (S => X 'b' 'c' => 'a' 'b' 'c')"
    );
}

/// The textbook case: E: E '<' E | 'n' with %nonassoc '<'. `n < n < n` is a sentence of the grammar.
#[test]
fn nonassoc() {
    let g = "%start E\n%nonassoc '<'\n%%\nE: E '<' E | 'n';\n";
    let (conflicts, accepted) = run(g, &["n", "<", "n", "<", "n"]);
    eprintln!("conflicts reported: {conflicts}; sentence `n < n < n` accepted: {accepted}");
    assert!(!conflicts, "precondition: construction reports no conflicts");
    assert!(
        accepted,
        "C01: construction reported no conflicts, so the parser must accept every sentence of the \
         grammar, but it reports an error for `n < n < n`"
    );
}
