//! C12 audit demo 2.
//!
//! Clause: "For every input string, parsing it ... as a lex specification ... terminates promptly
//! and returns either a value or a non-empty list of errors; it never panics and never loops."
//!
//! A lex specification can set `nest_limit` in its `%grmtools` section. The number is handed
//! unchecked to `regex::RegexBuilder::nest_limit`, which is the only thing that protects the
//! (recursive) regex compiler from deeply nested patterns. With the limit raised, a rule whose
//! regex is a long run of `(`...`)` overflows the stack inside `LRNonStreamingLexerDef::from_str`:
//! the process is killed with SIGABRT ("has overflowed its stack") -- not even a catchable panic,
//! let alone an `Err(..)` with a span.
//!
//! Because a stack overflow kills the whole test process, the parse is run in a child process
//! (this same test binary, re-executed) and the parent asserts on the child's exit status.
use std::process::Command;

use lrlex::{DefaultLexerTypes, LRNonStreamingLexerDef, LexerDef};

const DEPTH: usize = 200_000;

fn spec() -> String {
    // ~400KB of text: one rule whose regex is DEPTH nested groups.
    format!(
        "%grmtools{{nest_limit: 4000000000}}\n%%\n{}a{} 'A'\n",
        "(".repeat(DEPTH),
        ")".repeat(DEPTH)
    )
}

/// Child half: only does something when re-executed by `deep_nesting_returns_a_result`.
#[test]
fn child_parse() {
    if std::env::var("AUDIT_C12_CHILD").is_err() {
        return;
    }
    let src = spec();
    // 8MiB: the default size of a main thread's stack on Linux (test threads only get 2MiB).
    let h = std::thread::Builder::new()
        .stack_size(8 << 20)
        .spawn(move || {
            match LRNonStreamingLexerDef::<DefaultLexerTypes<u32>>::from_str(&src) {
                Ok(_) => println!("child: Ok(lexerdef)"),
                Err(es) => {
                    assert!(!es.is_empty());
                    println!("child: Err({} errors), first: {}", es.len(), es[0]);
                }
            }
        })
        .unwrap();
    h.join().unwrap();
}

#[test]
fn deep_nesting_returns_a_result() {
    // Sanity: without the header entry the same text is rejected with a located error.
    let src = spec().replace("nest_limit: 4000000000", "");
    let errs = LRNonStreamingLexerDef::<DefaultLexerTypes<u32>>::from_str(&src)
        .err()
        .expect("the regex crate's default nest limit rejects this");
    assert!(!errs.is_empty());

    let out = Command::new(std::env::current_exe().unwrap())
        .args(["child_parse", "--exact", "--nocapture", "--test-threads=1"])
        .env("AUDIT_C12_CHILD", "1")
        .output()
        .unwrap();
    let stderr = String::from_utf8_lossy(&out.stderr);
    let stdout = String::from_utf8_lossy(&out.stdout);
    assert!(
        out.status.success(),
        "LRNonStreamingLexerDef::from_str must return a value or a non-empty list of errors and \
         never crash, but the process parsing a {} byte lex specification died with {:?}\n\
         --- child stdout ---\n{}\n--- child stderr ---\n{}",
        spec().len(),
        out.status,
        stdout,
        stderr
    );
}
