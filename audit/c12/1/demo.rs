//! C12 audit demo 1.
//!
//! Clause: "returns either a value or a non-empty list of errors ... Every span carried by an
//! error or warning satisfies start <= end <= length of the text and lies on character
//! boundaries, **so it can always be rendered**."
//!
//! `YaccGrammar::from_str` / `ASTWithValidityInfo::from_str` on a grammar whose `%grmtools`
//! section has a `yacckind` value with a wrong namespace *and* a wrong member (for instance
//! `yacckind: Foo::Bar`) return ONE error that carries TWO spans while declaring
//! `SpansKind::Error` ("Contains a single span at the site of the error"). The project's own
//! renderer (`SpannedDiagnosticFormatter::format_error`) then hits `unreachable!()`.
use std::{
    panic::{AssertUnwindSafe, catch_unwind},
    path::Path,
    str::FromStr,
};

use cfgrammar::{
    Spanned,
    yacc::{YaccGrammar, ast::ASTWithValidityInfo, parser::SpansKind},
};
use lrpar::diagnostics::{DiagnosticFormatter, SpannedDiagnosticFormatter};

const INPUTS: &[&str] = &[
    // wrong namespace + unknown member: 2 spans
    "%grmtools{yacckind: Foo::Bar}\n%%\nS: ;\n",
    // a typo in each of the four names: 4 spans
    "%grmtools{yacckind: YaccKnd::Orignal(YaccOriginalActionKnd::NoActon)}\n%%\nS: ;\n",
    // wrong namespace only on the argument + unknown action kind: 2 spans
    "%grmtools{yacckind: Original(X::Y)}\n%%\nS: ;\n",
];

fn errors_of(src: &str) -> Vec<cfgrammar::yacc::YaccGrammarError> {
    let errs = match YaccGrammar::<u32>::from_str(src) {
        Ok(_) => panic!("{src:?} unexpectedly parsed"),
        Err(errs) => errs,
    };
    assert!(!errs.is_empty(), "a non-empty list of errors is promised");
    // The same errors come out of the other documented entry point.
    let errs2 = ASTWithValidityInfo::from_str(src).err().unwrap();
    assert_eq!(errs, errs2);
    for e in &errs {
        for sp in e.spans() {
            assert!(sp.start() <= sp.end() && sp.end() <= src.len());
            assert!(src.is_char_boundary(sp.start()) && src.is_char_boundary(sp.end()));
        }
    }
    errs
}

/// `SpansKind::Error` is documented as "Contains a single span at the site of the error"
/// (cfgrammar/src/lib/yacc/parser.rs) and `YaccGrammarError::spans` says the meaning of the
/// spans is given by `spanskind()`.
#[test]
fn yacckind_error_spans_match_spanskind() {
    for src in INPUTS {
        for e in errors_of(src) {
            if e.spanskind() == SpansKind::Error {
                assert_eq!(
                    e.spans().len(),
                    1,
                    "error {e:?} on {src:?} says SpansKind::Error (a single span) but carries {} spans",
                    e.spans().len()
                );
            }
        }
    }
}

/// "... so it can always be rendered": render with the project's diagnostic formatter, exactly
/// as nimbleparse / CTParserBuilder / CTLexerBuilder do for every error they print.
#[test]
fn yacckind_error_is_renderable() {
    for src in INPUTS {
        let diag = SpannedDiagnosticFormatter::new(src, Path::new("g.y"));
        for e in errors_of(src) {
            let r = catch_unwind(AssertUnwindSafe(|| diag.format_error(e.clone()).to_string()));
            assert!(
                r.is_ok(),
                "rendering the error {e:?} returned for {src:?} panicked"
            );
        }
    }
}
