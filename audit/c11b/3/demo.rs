// C11: "Flags given in the %grmtools section or through the builder are the ones in force".
//
// `LRNonStreamingLexerDef::from_str` (the entry point nimbleparse uses) never looks at the
// entries of the %grmtools section that it did not consume: a misspelt flag is dropped silently
// and the lexer is built with the default. CTLexerBuilder and the lrlex binary reject the same
// text with "Unused header values: ..". The book's flag table itself spells one flag
// `allow_wholeline_comment` (doc/src/lexextensions.md), which from_str accepts and ignores.
use lrlex::{DefaultLexerTypes, LRNonStreamingLexerDef, LexerDef};
use lrpar::Lexer;

type D = LRNonStreamingLexerDef<DefaultLexerTypes<u32>>;

#[test]
fn misspelt_flag_is_not_silently_dropped() {
    let src = "%grmtools{case_insensitiv}\n%%\na 'x'\n";
    match D::from_str(src) {
        Err(_) => (), // expected: the section names a flag that does not exist
        Ok(d) => {
            // If it is accepted, then what the user wrote must be in force.
            let n_ok = d.lexer("A").iter().filter(|r| r.is_ok()).count();
            panic!(
                "from_str accepted the unknown flag `case_insensitiv`; input \"A\" gives {} lexemes: \
                 the flag written in the section is neither in force nor reported",
                n_ok
            );
        }
    }
}

#[test]
fn flag_name_as_documented_in_the_book() {
    // doc/src/lexextensions.md lists `allow_wholeline_comment`.
    let src = "%grmtools{allow_wholeline_comment}\n%%\na 'x'\n";
    assert!(
        D::from_str(src).is_err(),
        "unknown %grmtools entry `allow_wholeline_comment` accepted and ignored"
    );
}
