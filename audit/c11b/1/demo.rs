// C11: "... a regular expression that matches what the written one denotes" /
// observe_at: "lexing behaviour of the built definition".
//
// `a|ab` and `ab|a` denote the same language {a, ab}. A lex scanner (and the grmtools book:
// "aspects such as the longest match rule are identical to Lex") takes the longest prefix of the
// input that belongs to the language of a rule. lrlex takes the regex crate's leftmost-FIRST
// match of each rule, so the order of the alternatives inside one rule changes the tokens.
use lrlex::{DefaultLexerTypes, LRNonStreamingLexerDef, LexerDef};
use lrpar::{Lexeme, Lexer};

type D = LRNonStreamingLexerDef<DefaultLexerTypes<u32>>;

fn lex(src: &str, input: &str) -> Vec<(Option<String>, usize, usize)> {
    let d = D::from_str(src).unwrap();
    d.lexer(input)
        .iter()
        .map(|r| match r {
            Ok(l) => (
                d.get_rule_by_id(l.tok_id()).name().map(|s| s.to_string()),
                l.span().start(),
                l.span().len(),
            ),
            Err(_) => (None, usize::MAX, 0),
        })
        .collect()
}

#[test]
fn alternation_order_must_not_change_the_longest_match() {
    let l1 = lex("%%\nab|a 'KW'\nb 'B'\n", "ab");
    let l2 = lex("%%\na|ab 'KW'\nb 'B'\n", "ab");
    // Longest match: the whole input "ab" is in the language of rule KW.
    assert_eq!(l1, vec![(Some("KW".to_string()), 0, 2)]);
    assert_eq!(
        l2, l1,
        "`a|ab` denotes the same language as `ab|a`: the longest match rule must give KW(ab)"
    );
}

#[test]
fn keyword_prefix_alternation() {
    // A typical lex rule; lex returns one KW lexeme for "ifdef".
    let l = lex("%%\nif|ifdef 'KW'\n[a-z]+ 'ID'\n", "ifdef");
    // ID also matches 5 chars, but KW is the earlier rule, so lex gives KW(ifdef).
    assert_eq!(l, vec![(Some("KW".to_string()), 0, 5)]);
}
