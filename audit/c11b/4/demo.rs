// C11: "a backslash before a character that is special neither to lex nor to the regex engine
// standing for that character itself".
//
// `8` and `9` are not octal digits: POSIX lex reads `\8` as the character `8`, and the regex
// crate does not know `\8` ("unrecognized escape sequence"). lrlex's table of escapes that are
// left to the regex engine lists every decimal digit, so `\8` / `\9` are passed on escaped and the
// rule is rejected.
use lrlex::{DefaultLexerTypes, LRNonStreamingLexerDef, LexerDef, DEFAULT_LEX_FLAGS};
use lrpar::Lexer;

type D = LRNonStreamingLexerDef<DefaultLexerTypes<u32>>;

#[test]
fn backslash_eight_is_the_character_eight() {
    for (src, input) in [("%%\n\\8 'x'\n", "8"), ("%%\na\\9b 'x'\n", "a9b"), ("%%\n[\\8\\9]+ 'x'\n", "98")] {
        let mut flags = DEFAULT_LEX_FLAGS;
        flags.posix_escapes = Some(true);
        for r in [D::from_str(src), D::new_with_options(src, flags)] {
            let d = r.unwrap_or_else(|es| {
                panic!(
                    "{:?} rejected: {:?}",
                    src,
                    es.iter().map(|e| e.to_string()).collect::<Vec<_>>()
                )
            });
            let ls = d.lexer(input).iter().collect::<Vec<_>>();
            assert_eq!(ls.len(), 1);
            assert!(ls[0].is_ok());
        }
    }
}
