// C11: "Flags given in the %grmtools section or through the builder are the ones in force".
//
// `nest_limit: N` is handed to the regex crate for the user's regex spliced into `\A(?:..)`, which
// is one level deeper than what the user wrote: the limit in force is N-1. A regex that the regex
// crate accepts under the given (or the default, 250) nest limit is rejected, with a message that
// quotes text the user did not write.
use lrlex::{DefaultLexerTypes, LRNonStreamingLexerDef, LexerDef, DEFAULT_LEX_FLAGS};

type D = LRNonStreamingLexerDef<DefaultLexerTypes<u32>>;

#[test]
fn nest_limit_from_header_is_the_one_in_force() {
    // The regex crate accepts `(a)` with a nest limit of 1.
    assert!(regex::RegexBuilder::new("(a)").nest_limit(1).build().is_ok());
    let r = D::from_str("%grmtools{nest_limit: 1}\n%%\n(a) 'x'\n");
    assert!(
        r.is_ok(),
        "nest_limit: 1 must admit a regex of nesting depth 1: {:?}",
        r.err().map(|es| es.iter().map(|e| e.to_string()).collect::<Vec<_>>())
    );
}

#[test]
fn nest_limit_from_flags_is_the_one_in_force() {
    let mut flags = DEFAULT_LEX_FLAGS;
    flags.nest_limit = Some(2);
    assert!(regex::RegexBuilder::new("((a))").nest_limit(2).build().is_ok());
    let r = D::new_with_options("%%\n((a)) 'x'\n", flags);
    assert!(r.is_ok(), "{:?}", r.err().map(|es| es.iter().map(|e| e.to_string()).collect::<Vec<_>>()));
}

#[test]
fn default_nest_limit_is_that_of_the_regex_crate() {
    // No flag given: the docs say that the regex crate's default applies (250).
    let re = format!("{}a{}", "(".repeat(250), ")".repeat(250));
    assert!(regex::Regex::new(&re).is_ok());
    let r = D::from_str(&format!("%%\n{re} 'x'\n"));
    assert!(r.is_ok(), "{:?}", r.err().map(|es| es.iter().map(|e| e.to_string()).collect::<Vec<_>>()));
}
