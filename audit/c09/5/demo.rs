// C09: "syncing ids with a parser reports exactly the names missing on either side".
//
// The documentation of `LexerDef::set_rule_ids` (lrlex/src/lib/lexer.rs, trait LexerDef) promises
// the tuple order
//   (*defined_in_lexer_missing_from_parser*, *referenced_in_parser_missing_from_lexer*)
// but the implementation (and every caller in the repository) uses the opposite order
//   (missing_from_lexer, missing_from_parser).
// A user who follows the documented contract attributes each set to the wrong side.
use lrlex::{DefaultLexerTypes, LRNonStreamingLexerDef, LexerDef};
use std::collections::{HashMap, HashSet};

type Def = LRNonStreamingLexerDef<DefaultLexerTypes<u32>>;

#[test]
fn tuple_order_is_the_documented_one() {
    let mut def = Def::from_str("%%\n[a-z]+ 'ID'\n").unwrap();
    let mut map = HashMap::new();
    map.insert("INT", 0u32); // the parser references INT, the lexer defines ID
    let (defined_in_lexer_missing_from_parser, referenced_in_parser_missing_from_lexer) =
        def.set_rule_ids(&map);
    assert_eq!(
        defined_in_lexer_missing_from_parser,
        Some(HashSet::from(["ID"])),
        "first component is documented as: defined in the lexer but not referenced by the parser"
    );
    assert_eq!(
        referenced_in_parser_missing_from_lexer,
        Some(HashSet::from(["INT"])),
        "second component is documented as: referenced by the parser but not defined in the lexer"
    );
}
