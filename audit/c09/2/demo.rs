// C09: "At each position the lexer picks ... the one with the longest non-empty match";
// "Matches are contiguous, in order and cover the input".
//
// `Rule::new` builds the regex by pasting the user's text into `\A(?:{})` without checking that the
// text is a regex by itself, and the scan loop uses `m.end()` as the match length without checking
// `m.start() == 0`.
use lrlex::{DefaultLexerTypes, LRNonStreamingLexerDef, LexerDef};
use lrpar::{LexError, Lexeme, Lexer};

type Def = LRNonStreamingLexerDef<DefaultLexerTypes<u32>>;

#[test]
fn unbalanced_parens_escape_the_anchor() {
    // `a)|(b` is not a regular expression (regex::Regex::new rejects it) ...
    assert!(regex::Regex::new("a)|(b").is_err());
    // ... so either the specification is rejected, or, if it is accepted, lexemes must be matches
    // that start at the current position.
    let def = match Def::from_str("%%\na)|(b 'T'\nx 'X'\n") {
        Err(_) => return, // rejecting the rule is fine
        Ok(def) => def,
    };
    let input = "xxb";
    let got = def
        .lexer(input)
        .iter()
        .map(|r| match r {
            Ok(l) => Ok((
                def.get_rule_by_id(l.tok_id()).name().unwrap().to_string(),
                l.span().start(),
                l.span().end(),
            )),
            Err(e) => Err(e.span().start()),
        })
        .collect::<Vec<_>>();
    // At byte 0 only `x 'X'` matches (length 1).
    assert_eq!(
        got.first(),
        Some(&Ok(("X".to_string(), 0, 1))),
        "lexeme at byte 0 must be the longest match starting at byte 0; got {:?}",
        got
    );
}

#[test]
fn ignore_whitespace_comment_swallows_the_closing_paren() {
    // With ignore_whitespace (the regex crate's `x` flag) `#` starts a comment, so `a#b` is the
    // legal regex `a`.
    assert!(
        regex::RegexBuilder::new("a#b")
            .ignore_whitespace(true)
            .build()
            .unwrap()
            .is_match("a")
    );
    let def = Def::from_str("%grmtools{ignore_whitespace}\n%%\na#b 'T'\n");
    assert!(
        def.is_ok(),
        "a legal regex under the ignore_whitespace flag is rejected: {:?}",
        def.err()
    );
    let def = def.unwrap();
    let toks = def.lexer("a").iter().map(|r| r.is_ok()).collect::<Vec<_>>();
    assert_eq!(toks, vec![true]);
}
