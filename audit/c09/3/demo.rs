// C09: "At each position the lexer picks ... the one with the longest non-empty match" /
// anchors: parser.rs, "anchored regex \A(?:re) with flags".
//
// doc/src/lexcompatibility.md lists `\A` `\b` `\B` `\z` as escape sequences that are passed to the
// regex crate. The parser's table of escapes that must stay escaped (RE_LEX_ESC_LITERAL) has
// `[Az]` and special-cases `b`, but not `B`; it also only accepts `\x`, `\u`, `\U` when followed by
// a hex digit, so the regex crate's braced forms `\x{41}`, `\u{41}`, `\U{41}` lose their backslash.
// The rule then silently means something else.
use lrlex::{DefaultLexerTypes, LRNonStreamingLexerDef, LexerDef};
use lrpar::{LexError, Lexeme, Lexer};

type Def = LRNonStreamingLexerDef<DefaultLexerTypes<u32>>;

fn lex(src: &str, input: &str) -> Vec<Result<(usize, usize), usize>> {
    let def = Def::from_str(src).unwrap();
    def.lexer(input)
        .iter()
        .map(|r| match r {
            Ok(l) => Ok((l.span().start(), l.span().end())),
            Err(e) => Err(e.span().start()),
        })
        .collect()
}

#[test]
fn not_a_word_boundary() {
    // In the regex crate `a\Bb` matches "ab" and does not match "aBb".
    let re = regex::Regex::new(r"\A(?:a\Bb)").unwrap();
    assert!(re.is_match("ab") && !re.is_match("aBb"));
    assert_eq!(
        lex("%%\na\\Bb 'T'\n", "ab"),
        vec![Ok((0, 2))],
        "rule `a\\Bb` has a match of length 2 at byte 0 of \"ab\""
    );
    assert_eq!(
        lex("%%\na\\Bb 'T'\n", "aBb"),
        vec![Err(0)],
        "rule `a\\Bb` has no match in \"aBb\""
    );
}

#[test]
fn braced_hex_escape() {
    // In the regex crate `\x{41}` is the letter A.
    assert!(regex::Regex::new(r"\A(?:\x{41})").unwrap().is_match("A"));
    assert_eq!(
        lex("%%\n\\x{41} 'T'\n", "A"),
        vec![Ok((0, 1))],
        "rule `\\x{{41}}` matches \"A\""
    );
    // ... and it certainly does not mean "x, twice":
    assert_eq!(lex("%%\n\\x{2} 'T'\n", "xx"), vec![Err(0)]);
}
