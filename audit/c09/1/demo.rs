// C09: "At each position the lexer picks, among the rules active in the current start state, the
// one with the longest non-empty match ... a single lexing error placed at the first position
// where no active rule matches".
//
// The lexer matches every rule against the *slice* `&s[i..]`, so every assertion that looks at the
// text before the position (`^` under the default multi_line flag, `\b`, `\A`) is evaluated as if
// position `i` were the start of the input. Rules that do not match at a position are then chosen.
use lrlex::{DefaultLexerTypes, LRNonStreamingLexerDef, LexerDef};
use lrpar::{LexError, Lexeme, Lexer};
use regex::RegexBuilder;

type Def = LRNonStreamingLexerDef<DefaultLexerTypes<u32>>;

fn lex(def: &Def, input: &str) -> Vec<Result<(String, usize, usize), usize>> {
    def.lexer(input)
        .iter()
        .map(|r| match r {
            Ok(l) => Ok((
                def.get_rule_by_id(l.tok_id()).name().unwrap().to_string(),
                l.span().start(),
                l.span().end(),
            )),
            Err(e) => Err(e.span().start()),
        })
        .collect()
}

/// Does `re` (with lrlex's default flags) have a match starting exactly at byte `pos` of `input`?
fn matches_at(re: &str, input: &str, pos: usize) -> bool {
    let re = RegexBuilder::new(re)
        .multi_line(true)
        .dot_matches_new_line(true)
        .octal(true)
        .build()
        .unwrap();
    // Leftmost semantics: if any match starts at `pos`, `find_at` returns one starting at `pos`.
    re.find_at(input, pos).is_some_and(|m| m.start() == pos)
}

#[test]
fn caret_rule_is_chosen_in_the_middle_of_a_line() {
    // `^a` = "an `a` at the beginning of a line" (multi_line is on by default in lrlex).
    let def = Def::from_str("%%\n^a 'LINE_START_A'\nb 'B'\na 'A'\n").unwrap();
    let input = "ba";
    // Sanity: according to the regex crate, `^a` does not match at byte 1 of "ba", `a` does.
    assert!(!matches_at("^a", input, 1));
    assert!(matches_at("a", input, 1));
    assert_eq!(
        lex(&def, input),
        vec![Ok(("B".to_string(), 0, 1)), Ok(("A".to_string(), 1, 2))],
        "the only active rule matching at byte 1 of \"ba\" is `a 'A'`: `^a` is not at a line start"
    );
}

#[test]
fn word_boundary_rule_hides_the_lexing_error() {
    let def = Def::from_str("%%\nx 'X'\n\\bfoo 'FOO'\n").unwrap();
    let input = "xfoo";
    // No rule matches at byte 1: `\bfoo` needs a word boundary between `x` and `f`.
    assert!(!matches_at(r"\bfoo", input, 1));
    assert!(!matches_at("x", input, 1));
    assert_eq!(
        lex(&def, input),
        vec![Ok(("X".to_string(), 0, 1)), Err(1)],
        "a single lexing error must be placed at byte 1, the first position where no active rule matches"
    );
}
