// C09: "named rules emit a lexeme with the token id assigned to that name and unnamed rules emit
// nothing" / "syncing ids with a parser".
//
// The .l parser gives *every* rule, also the unnamed (skip) ones, `tok_id = Some(rule index)`.
// `set_rule_ids` only rewrites the ids of named rules, so afterwards an unnamed rule can carry the
// same id as a named one, and `LexerDef::get_rule_by_id` ("Get the Rule instance associated with a
// particular lexeme ID") returns the unnamed rule, which can never produce a lexeme, for the id
// of a lexeme that the lexer has just produced.
use lrlex::{DefaultLexerTypes, LRNonStreamingLexerDef, LexerDef};
use lrpar::{Lexeme, Lexer};
use std::collections::HashMap;

type Def = LRNonStreamingLexerDef<DefaultLexerTypes<u32>>;

#[test]
fn id_of_an_emitted_lexeme_resolves_to_its_rule() {
    // Typical layout: white space first. A parser numbers its tokens from 0.
    let mut def = Def::from_str("%%\n[ ]+ ;\na 'A'\nb 'B'\n").unwrap();
    let mut map = HashMap::new();
    map.insert("A", 0u32);
    map.insert("B", 1u32);
    assert_eq!(def.set_rule_ids(&map), (None, None));

    let lexemes = def.lexer("a b").iter().map(|r| r.unwrap()).collect::<Vec<_>>();
    assert_eq!(lexemes.len(), 2);
    let names = lexemes
        .iter()
        .map(|l| def.get_rule_by_id(l.tok_id()).name().map(|s| s.to_string()))
        .collect::<Vec<_>>();
    assert_eq!(
        names,
        vec![Some("A".to_string()), Some("B".to_string())],
        "the rule associated with the id of an emitted lexeme must be the named rule that emitted it"
    );
}
