// C17: "... generated minimal sentences are derivable and have that cost, and all these queries
// terminate."
//
// SentenceGenerator::min_sentences recurses once per rule along a chain of rules
// (min_sentences_below calls itself for every rule symbol of a cheapest production, the recursion
// depth is bounded only by the number of rules). On a grammar that is nothing but a chain of unit
// productions the query does not return: the thread overflows its stack and the whole process is
// aborted (SIGABRT). min_sentence_cost and min_sentence answer the same question for the same
// grammar without any problem.
use cfgrammar::yacc::{YaccGrammar, YaccKind, YaccOriginalActionKind};
use std::process::Command;

const CHILD: &str = "AUDIT_DEMO_2_CHILD";

fn chain(k: usize) -> String {
    // A0: A1; A1: A2; ... A{k-1}: A{k}; A{k}: 'x';
    let mut s = String::from("%start A0\n%%\n");
    for i in 0..k {
        s.push_str(&format!("A{}: A{};\n", i, i + 1));
    }
    s.push_str(&format!("A{}: 'x';\n", k));
    s
}

fn query(k: usize) {
    let grm = YaccGrammar::<u32>::new(
        YaccKind::Original(YaccOriginalActionKind::GenericParseTree),
        &chain(k),
    )
    .unwrap();
    let a0 = grm.rule_idx("A0").unwrap();
    let x = grm.token_idx("x").unwrap();
    let sg = grm.sentence_generator(|_| 1);
    assert_eq!(sg.min_sentence_cost(a0), 1);
    assert_eq!(sg.min_sentence(a0), vec![x]);
    println!("min_sentence_cost and min_sentence answered");
    // A0 derives exactly one string: 'x'.
    assert_eq!(sg.min_sentences(a0), vec![vec![x]]);
    println!("min_sentences answered");
}

#[test]
fn min_sentences_on_unit_chain_terminates() {
    if std::env::var(CHILD).is_ok() {
        // Overflows the default 2MiB stack of a test thread (measured: debug builds overflow from
        // ~3000 rules, release builds from ~12000 rules). The sizes are chosen per profile only
        // to keep the (quadratic) cost calculation of the debug build short.
        query(if cfg!(debug_assertions) { 5000 } else { 20000 });
        return;
    }
    // Run the query in a child process so that the abort can be observed and asserted on.
    let out = Command::new(std::env::current_exe().unwrap())
        .args(["min_sentences_on_unit_chain_terminates", "--exact", "--nocapture"])
        .env(CHILD, "1")
        .output()
        .unwrap();
    let stdout = String::from_utf8_lossy(&out.stdout);
    let stderr = String::from_utf8_lossy(&out.stderr);
    assert!(
        stdout.contains("min_sentence_cost and min_sentence answered"),
        "sanity: the cheaper queries work\n{stdout}\n{stderr}"
    );
    assert!(
        out.status.success() && stdout.contains("min_sentences answered"),
        "min_sentences(A0) must terminate with [['x']] on a unit chain of 5001 (debug) / 20001 (release) rules, but the process \
         ended with {:?}:\n{}",
        out.status,
        stderr
    );
}
