// C17: "Minimum and maximum sentence costs equal the true minimum and maximum ... over all
// derivable strings under the given token costs".
//
// The costs of *every* rule are computed (and checked for overflow) the first time the cost of
// *any* rule is asked for. A rule whose cost does not fit in a u16 therefore makes the queries for
// all other rules panic, although their true costs are small and representable.
use cfgrammar::yacc::{YaccGrammar, YaccKind, YaccOriginalActionKind};
use std::panic::{AssertUnwindSafe, catch_unwind};

fn grm() -> YaccGrammar<u32> {
    // S derives exactly one string, 'a'. Big is not even reachable from S; it derives exactly one
    // string of 258 tokens.
    let mut s = String::from("%start S\n%%\nS: 'a';\nBig:");
    for _ in 0..258 {
        s.push_str(" 'b'");
    }
    s.push_str(";\n");
    YaccGrammar::new(YaccKind::Original(YaccOriginalActionKind::GenericParseTree), &s).unwrap()
}

#[test]
fn min_cost_of_small_rule() {
    let grm = grm();
    let s = grm.rule_idx("S").unwrap();
    let sg = grm.sentence_generator(|_| 255);
    let r = catch_unwind(AssertUnwindSafe(|| sg.min_sentence_cost(s)));
    // The only string S derives is 'a', whose cost is 255.
    assert_eq!(r.ok(), Some(255), "min_sentence_cost(S) must equal the true minimum 255");
}

#[test]
fn max_cost_of_small_rule() {
    let grm = grm();
    let s = grm.rule_idx("S").unwrap();
    let sg = grm.sentence_generator(|_| 255);
    let r = catch_unwind(AssertUnwindSafe(|| sg.max_sentence_cost(s)));
    assert_eq!(r.ok(), Some(Some(255)), "max_sentence_cost(S) must equal the true maximum 255");
}

#[test]
fn min_sentence_of_small_rule() {
    let grm = grm();
    let s = grm.rule_idx("S").unwrap();
    let a = grm.token_idx("a").unwrap();
    let sg = grm.sentence_generator(|_| 255);
    let r = catch_unwind(AssertUnwindSafe(|| sg.min_sentence(s)));
    assert_eq!(r.ok(), Some(vec![a]), "min_sentence(S) must be ['a']");
    let sg = grm.sentence_generator(|_| 255);
    let r = catch_unwind(AssertUnwindSafe(|| sg.min_sentences(s)));
    assert_eq!(r.ok(), Some(vec![vec![a]]), "min_sentences(S) must be [['a']]");
}

#[test]
fn default_costs_doubling_chain() {
    // With the simplest cost function |_| 1: A16 derives only x^65536, but A0 .. A15 derive
    // x^1 .. x^32768, all of which fit in a u16.
    let mut s = String::from("%start A16\n%%\nA0: 'x';\n");
    for i in 1..=16 {
        s.push_str(&format!("A{}: A{} A{};\n", i, i - 1, i - 1));
    }
    let grm =
        YaccGrammar::new(YaccKind::Original(YaccOriginalActionKind::GenericParseTree), &s).unwrap();
    let a3 = grm.rule_idx("A3").unwrap();
    let sg = grm.sentence_generator(|_| 1);
    let r = catch_unwind(AssertUnwindSafe(|| sg.min_sentence_cost(a3)));
    assert_eq!(r.ok(), Some(8), "min_sentence_cost(A3) must equal the true minimum 8");
    let sg = grm.sentence_generator(|_| 1);
    let r = catch_unwind(AssertUnwindSafe(|| sg.max_sentence_cost(a3)));
    assert_eq!(r.ok(), Some(Some(8)), "max_sentence_cost(A3) must equal the true maximum 8");
}
