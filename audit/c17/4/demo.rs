// C17: "the FOLLOW set is exactly the set of tokens (or end of input) that can follow the rule in
// a sentential form" -- quantifier: all grammars, explicitly including "unproductive and
// unreachable rules".
//
// A sentential form is a string derived from the start rule. YaccFollows::new walks over *all*
// productions, also those of rules that cannot be reached from the start rule, so tokens that only
// follow a rule inside an unreachable production end up in its FOLLOW set.
use cfgrammar::yacc::{YaccGrammar, YaccKind, YaccOriginalActionKind};

#[test]
fn follow_ignores_unreachable_productions() {
    // The sentential forms are: S, A 'x', 'a' 'x'. U is unreachable (cfgrammar accepts that; it
    // only produces a warning).
    let grm = YaccGrammar::<u32>::new(
        YaccKind::Original(YaccOriginalActionKind::GenericParseTree),
        "%start S
         %%
         S: A 'x';
         A: 'a';
         U: A 'y' | V;
         V: 'v';",
    )
    .unwrap();
    let follows = grm.follows();
    let a = grm.rule_idx("A").unwrap();
    let u = grm.rule_idx("U").unwrap();
    let v = grm.rule_idx("V").unwrap();
    let s = grm.rule_idx("S").unwrap();
    assert!(!grm.has_path(grm.start_rule_idx(), u));
    assert!(!grm.has_path(grm.start_rule_idx(), v));
    let names = |ridx| {
        grm.iter_tidxs()
            .filter(|tidx| follows.is_set(ridx, *tidx))
            .map(|tidx| grm.token_name(tidx).unwrap_or("$").to_string())
            .collect::<Vec<_>>()
    };
    assert_eq!(names(s), vec!["$"]);
    // 'y' follows A in no sentential form.
    assert_eq!(names(a), vec!["x"], "FOLLOW(A) must be exactly {{x}}");
    // U and V occur in no sentential form at all.
    assert_eq!(names(u), Vec::<String>::new(), "FOLLOW(U) must be empty");
    assert_eq!(names(v), Vec::<String>::new(), "FOLLOW(V) must be empty");
}
