// C17: "... generated minimal sentences are derivable and have that cost, and all these queries
// terminate."
//
// min_sentence and min_sentences expand every occurrence of a rule in a cheapest production again
// and again, also when what the rule contributes is the empty string. For
//
//   A0: A1 A1; A1: A2 A2; ... A{k-1}: A{k} A{k}; A{k}: ;
//
// every rule derives exactly one string, the empty one (min_sentence_cost answers 0 at once), but
// min_sentence(A0) performs 2^k expansions to build that empty sentence and min_sentences(A0)
// makes 2^k recursive calls to return [[]]. The time doubles with every rule that is added:
// measured (debug build) min_sentence k=16: 64ms, k=18: 90ms, k=20: 177ms, k=22: 733ms;
// min_sentences k=20: 0.73s, k=22: 3.8s. With the 46 rules used here the queries would run for
// months, i.e. for practical purposes they do not terminate.
use cfgrammar::{
    TIdx,
    yacc::{YaccGrammar, YaccKind, YaccOriginalActionKind},
};
use std::{sync::mpsc, thread, time::Duration};

const K: usize = 45;

fn src() -> String {
    let mut s = String::from("%start A0\n%%\n");
    for i in 0..K {
        s.push_str(&format!("A{}: A{} A{};\n", i, i + 1, i + 1));
    }
    s.push_str(&format!("A{}: ;\n", K));
    s
}

fn grm() -> YaccGrammar<u32> {
    YaccGrammar::new(YaccKind::Original(YaccOriginalActionKind::GenericParseTree), &src()).unwrap()
}

fn within<T: Send + 'static>(secs: u64, f: impl FnOnce() -> T + Send + 'static) -> Option<T> {
    let (tx, rx) = mpsc::channel();
    thread::spawn(move || {
        let _ = tx.send(f());
    });
    rx.recv_timeout(Duration::from_secs(secs)).ok()
}

#[test]
fn costs_are_immediate() {
    let r = within(30, || {
        let grm = grm();
        let a0 = grm.rule_idx("A0").unwrap();
        let sg = grm.sentence_generator(|_| 1);
        (sg.min_sentence_cost(a0), sg.max_sentence_cost(a0))
    });
    assert_eq!(r, Some((0, Some(0))));
}

#[test]
fn min_sentence_terminates() {
    let r: Option<Vec<TIdx<u32>>> = within(30, || {
        let grm = grm();
        let a0 = grm.rule_idx("A0").unwrap();
        grm.sentence_generator(|_| 1).min_sentence(a0)
    });
    assert_eq!(
        r,
        Some(vec![]),
        "min_sentence(A0) must terminate with the empty sentence (46 rules, 91 symbols)"
    );
}

#[test]
fn min_sentences_terminates() {
    let r: Option<Vec<Vec<TIdx<u32>>>> = within(30, || {
        let grm = grm();
        let a0 = grm.rule_idx("A0").unwrap();
        grm.sentence_generator(|_| 1).min_sentences(a0)
    });
    assert_eq!(
        r,
        Some(vec![vec![]]),
        "min_sentences(A0) must terminate with [[]] (46 rules, 91 symbols)"
    );
}
