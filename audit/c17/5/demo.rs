// C17: "the FIRST set is exactly the set of tokens that can begin a string derived from the rule,
// the epsilon flag holds exactly when the rule derives the empty string" -- quantifier: all
// grammars, explicitly including "unproductive and unreachable rules".
//
// A rule from which no string (of tokens) can be derived has no token that begins such a string.
// YaccFirsts::new never asks whether the rest of a production can derive anything, so tokens at
// the start of productions that can never be completed are reported, for the unproductive rule
// itself and for every rule that mentions it.
use cfgrammar::yacc::{YaccGrammar, YaccKind, YaccOriginalActionKind};

#[test]
fn first_ignores_productions_that_derive_no_string() {
    // C derives no string ('c' C never ends); S derives exactly one string: 'a'.
    let grm = YaccGrammar::<u32>::new(
        YaccKind::Original(YaccOriginalActionKind::GenericParseTree),
        "%start S
         %%
         S: C 'b' | 'a';
         C: 'c' C;",
    )
    .unwrap();
    let s = grm.rule_idx("S").unwrap();
    let c = grm.rule_idx("C").unwrap();
    // The grammar's own analysis agrees that C derives no string and S only 'a':
    let sg = grm.sentence_generator(|_| 1);
    assert_eq!(sg.min_sentence_cost(c), u16::MAX);
    assert_eq!(sg.min_sentences(s), vec![vec![grm.token_idx("a").unwrap()]]);
    assert_eq!(sg.max_sentence_cost(s), Some(1));

    let firsts = grm.firsts();
    let names = |ridx| {
        grm.iter_tidxs()
            .filter(|tidx| firsts.is_set(ridx, *tidx))
            .map(|tidx| grm.token_name(tidx).unwrap_or("$").to_string())
            .collect::<Vec<_>>()
    };
    assert_eq!(names(c), Vec::<String>::new(), "no string is derived from C, so FIRST(C) = {{}}");
    assert_eq!(names(s), vec!["a"], "the only string derived from S is 'a', so FIRST(S) = {{a}}");
}
