// C04 audit demo 3: with recovery OFF, a rejected input whose already-reduced part forms a deep
// (left-recursive) generic parse tree kills the process with a stack overflow inside lrpar (the
// partial tree of lrpar's own `Node` type is dropped recursively when `None` is returned): no value,
// but no parse error either. The same input with a flat value type is reported correctly.
//
// Placement: lrpar/tests/audit_demo_3.rs
// Run:       cargo test -p lrpar --offline --test audit_demo_3
#![allow(deprecated)]
use std::{error::Error, fmt, process::Command};

use cfgrammar::{
    Span,
    yacc::{YaccGrammar, YaccKind, YaccOriginalActionKind},
};
use lrpar::{
    LexError, LexParseError, Lexeme, Lexer, LexerTypes, NonStreamingLexer, RTParserBuilder,
    RecoveryKind,
};
use lrtable::{Minimiser, from_yacc};

#[derive(Clone, Copy, Debug, Eq, Hash, PartialEq)]
struct Lx {
    tok: u16,
    start: usize,
    len: usize,
    faulty: bool,
}
impl Lexeme<u16> for Lx {
    fn new(tok: u16, start: usize, len: usize) -> Self {
        Lx { tok, start, len, faulty: false }
    }
    fn new_faulty(tok: u16, start: usize, len: usize) -> Self {
        Lx { tok, start, len, faulty: true }
    }
    fn tok_id(&self) -> u16 {
        self.tok
    }
    fn span(&self) -> Span {
        Span::new(self.start, self.start + self.len)
    }
    fn faulty(&self) -> bool {
        self.faulty
    }
}
impl fmt::Display for Lx {
    fn fmt(&self, f: &mut fmt::Formatter) -> fmt::Result {
        write!(f, "{:?}", self)
    }
}
#[derive(Debug)]
struct LE;
impl fmt::Display for LE {
    fn fmt(&self, _: &mut fmt::Formatter) -> fmt::Result {
        Ok(())
    }
}
impl Error for LE {}
impl LexError for LE {
    fn span(&self) -> Span {
        Span::new(0, 0)
    }
}
#[derive(Debug, Clone)]
struct LT;
impl LexerTypes for LT {
    type LexemeT = Lx;
    type StorageT = u16;
    type LexErrorT = LE;
}
struct VL {
    lexemes: Vec<Lx>,
}
impl Lexer<LT> for VL {
    fn iter<'a>(&'a self) -> Box<dyn Iterator<Item = Result<Lx, LE>> + 'a> {
        Box::new(self.lexemes.iter().map(|x| Ok(*x)))
    }
}
impl<'input> NonStreamingLexer<'input, LT> for VL {
    fn span_str(&self, _: Span) -> &'input str {
        ""
    }
    fn span_lines_str(&self, _: Span) -> &'input str {
        ""
    }
    fn line_col(&self, _: Span) -> ((usize, usize), (usize, usize)) {
        ((1, 1), (1, 1))
    }
}


/// Number of `a` lexemes before the offending `b`.
const N: usize = 400_000;
/// The default size of the main thread's stack on Linux.
const STACK: usize = 8 * 1024 * 1024;

fn child(tree: bool, tag: &'static str) {
    let h = std::thread::Builder::new()
        .stack_size(STACK)
        .spawn(move || {
            // Conflict-free, all rules productive; `b` is declared but used by no production.
            let grm = YaccGrammar::<u16>::new_with_storaget(
                YaccKind::Original(YaccOriginalActionKind::GenericParseTree),
                "%start L\n%token b\n%%\nL: L 'a' | 'a';",
            )
            .unwrap();
            let (_, stable) = from_yacc(&grm, Minimiser::Pager).unwrap();
            assert!(stable.conflicts().is_none());
            let a = u16::try_from(usize::from(grm.token_idx("a").unwrap())).unwrap();
            let b = u16::try_from(usize::from(grm.token_idx("b").unwrap())).unwrap();
            let mut lexemes: Vec<Lx> = (0..N).map(|i| Lx::new(a, 2 * i, 1)).collect();
            lexemes.push(Lx::new(b, 2 * N, 1));
            let lexer = VL { lexemes };
            let pb = RTParserBuilder::<u16, LT>::new(&grm, &stable).recoverer(RecoveryKind::None);
            let (is_some, errs) = if tree {
                let (v, e) = pb.parse_generictree(&lexer);
                (v.is_some(), e)
            } else {
                let (v, e) = pb.parse_map(&lexer, &|_| (), &|_, _| ());
                (v.is_some(), e)
            };
            match errs.first() {
                Some(LexParseError::ParseError(e)) => println!(
                    "{tag} value={is_some} errors={} first-error-at-byte {}",
                    errs.len(),
                    e.lexeme().span().start()
                ),
                _ => println!("{tag} no-parse-error"),
            }
        })
        .unwrap();
    h.join().unwrap();
}

#[test]
fn deep_generic_tree_rejected_input_recovery_off() {
    if let Ok(mode) = std::env::var("AUDIT_DEMO_CHILD") {
        match mode.as_str() {
            "flat" => child(false, "FLAT"),
            _ => child(true, "TREE"),
        }
        return;
    }
    let run = |mode: &str| {
        let out = Command::new(std::env::current_exe().unwrap())
            .args([
                "--exact",
                "deep_generic_tree_rejected_input_recovery_off",
                "--nocapture",
                "--test-threads",
                "1",
            ])
            .env("AUDIT_DEMO_CHILD", mode)
            .output()
            .unwrap();
        (
            out.status,
            String::from_utf8_lossy(&out.stdout).into_owned(),
            String::from_utf8_lossy(&out.stderr).into_owned(),
        )
    };
    let expected = format!("value=false errors=1 first-error-at-byte {}", 2 * N);

    // Control: with a flat value type the error is reported as C04 demands.
    let (st, so, se) = run("flat");
    assert!(
        st.success() && so.contains(&format!("FLAT {expected}")),
        "control failed: {st:?}\n{so}\n{se}"
    );

    // C04: "With error recovery off [...] a rejected input yields no value and exactly one parse
    // error, located at the first lexeme [...] such that the lexemes up to and including it are
    // not a prefix of any sentence".
    let (st, so, se) = run("tree");
    assert!(
        st.success() && so.contains(&format!("TREE {expected}")),
        "C04 violated: parse_generictree with recovery off did not report the one parse error; \
         the parsing process ended with {st:?}\nstdout: {so}\nstderr: {se}"
    );
}
