// C04 audit demo 1: with CPCT+ recovery on, a syntax error met while the parse stack is deep makes
// the process die of a stack overflow inside the recoverer: no error is reported at all, whereas
// with recovery off the same input yields exactly one error at the offending lexeme.
//
// Placement: lrpar/tests/audit_demo_1.rs
// Run:       cargo test -p lrpar --offline --test audit_demo_1
use std::{error::Error, fmt, process::Command};

use cfgrammar::{
    Span,
    yacc::{YaccGrammar, YaccKind, YaccOriginalActionKind},
};
use lrpar::{
    LexError, LexParseError, Lexeme, Lexer, LexerTypes, NonStreamingLexer, RTParserBuilder,
    RecoveryKind,
};
use lrtable::{Minimiser, from_yacc};

#[derive(Clone, Copy, Debug, Eq, Hash, PartialEq)]
struct Lx {
    tok: u16,
    start: usize,
    len: usize,
    faulty: bool,
}
impl Lexeme<u16> for Lx {
    fn new(tok: u16, start: usize, len: usize) -> Self {
        Lx { tok, start, len, faulty: false }
    }
    fn new_faulty(tok: u16, start: usize, len: usize) -> Self {
        Lx { tok, start, len, faulty: true }
    }
    fn tok_id(&self) -> u16 {
        self.tok
    }
    fn span(&self) -> Span {
        Span::new(self.start, self.start + self.len)
    }
    fn faulty(&self) -> bool {
        self.faulty
    }
}
impl fmt::Display for Lx {
    fn fmt(&self, f: &mut fmt::Formatter) -> fmt::Result {
        write!(f, "{:?}", self)
    }
}
#[derive(Debug)]
struct LE;
impl fmt::Display for LE {
    fn fmt(&self, _: &mut fmt::Formatter) -> fmt::Result {
        Ok(())
    }
}
impl Error for LE {}
impl LexError for LE {
    fn span(&self) -> Span {
        Span::new(0, 0)
    }
}
#[derive(Debug, Clone)]
struct LT;
impl LexerTypes for LT {
    type LexemeT = Lx;
    type StorageT = u16;
    type LexErrorT = LE;
}
struct VL {
    lexemes: Vec<Lx>,
}
impl Lexer<LT> for VL {
    fn iter<'a>(&'a self) -> Box<dyn Iterator<Item = Result<Lx, LE>> + 'a> {
        Box::new(self.lexemes.iter().map(|x| Ok(*x)))
    }
}
impl<'input> NonStreamingLexer<'input, LT> for VL {
    fn span_str(&self, _: Span) -> &'input str {
        ""
    }
    fn span_lines_str(&self, _: Span) -> &'input str {
        ""
    }
    fn line_col(&self, _: Span) -> ((usize, usize), (usize, usize)) {
        ((1, 1), (1, 1))
    }
}

/// Number of `a` lexemes before the offending `b`.
const N: usize = 300_000;
/// The default size of the main thread's stack on Linux.
const STACK: usize = 8 * 1024 * 1024;

/// Parses `a^N b` against `L: 'a' L | 'a';` and prints where the first error was reported.
fn child(rk: RecoveryKind, tag: &'static str) {
    let h = std::thread::Builder::new()
        .stack_size(STACK)
        .spawn(move || {
            // A conflict-free grammar all of whose rules are productive. `b` is a declared token
            // that no production uses.
            let grm = YaccGrammar::<u16>::new_with_storaget(
                YaccKind::Original(YaccOriginalActionKind::NoAction),
                "%start L\n%token b\n%%\nL: 'a' L | 'a';",
            )
            .unwrap();
            let (_, stable) = from_yacc(&grm, Minimiser::Pager).unwrap();
            assert!(stable.conflicts().is_none());
            let a = u16::try_from(usize::from(grm.token_idx("a").unwrap())).unwrap();
            let b = u16::try_from(usize::from(grm.token_idx("b").unwrap())).unwrap();
            let mut lexemes: Vec<Lx> = (0..N).map(|i| Lx::new(a, 2 * i, 1)).collect();
            lexemes.push(Lx::new(b, 2 * N, 1));
            let lexer = VL { lexemes };
            // The value type is `()`: nothing the caller supplies is recursive.
            let (_, errs) = RTParserBuilder::<u16, LT>::new(&grm, &stable)
                .recoverer(rk)
                .parse_map(&lexer, &|_| (), &|_, _| ());
            match errs.first() {
                Some(LexParseError::ParseError(e)) => {
                    println!("{tag} first-error-at-byte {}", e.lexeme().span().start())
                }
                _ => println!("{tag} no-parse-error"),
            }
        })
        .unwrap();
    h.join().unwrap();
}

#[test]
fn deep_stack_first_error_recovery_on() {
    if let Ok(mode) = std::env::var("AUDIT_DEMO_CHILD") {
        match mode.as_str() {
            "off" => child(RecoveryKind::None, "OFF"),
            _ => child(RecoveryKind::CPCTPlus, "ON"),
        }
        return;
    }
    let run = |mode: &str| {
        let out = Command::new(std::env::current_exe().unwrap())
            .args(["--exact", "deep_stack_first_error_recovery_on", "--nocapture", "--test-threads", "1"])
            .env("AUDIT_DEMO_CHILD", mode)
            .output()
            .unwrap();
        (
            out.status,
            String::from_utf8_lossy(&out.stdout).into_owned(),
            String::from_utf8_lossy(&out.stderr).into_owned(),
        )
    };
    let expected = format!("first-error-at-byte {}", 2 * N);

    // Control: recovery off reports exactly the lexeme `b` (the first lexeme that cannot continue a
    // sentence: a^N is a prefix of a sentence, a^N b is not).
    let (st, so, se) = run("off");
    assert!(
        st.success() && so.contains(&format!("OFF {expected}")),
        "control (recovery off) failed: {st:?}\n{so}\n{se}"
    );

    // C04: "With recovery on, the first reported error is at that same lexeme."
    let (st, so, se) = run("on");
    assert!(
        st.success() && so.contains(&format!("ON {expected}")),
        "C04 violated: with recovery on no error was reported at the lexeme where recovery off \
         reports it; the parsing process ended with {st:?}\nstdout: {so}\nstderr: {se}"
    );
}
