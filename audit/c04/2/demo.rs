// C04 audit demo 2: a lexeme carrying the grammar's EOF token index in the middle of the token
// sequence makes the parser accept and silently ignore everything after it: a token sequence that
// is not a sentence yields a value and no error, with recovery off and on.
//
// Placement: lrpar/tests/audit_demo_2.rs
// Run:       cargo test -p lrpar --offline --test audit_demo_2
use std::{error::Error, fmt};

use cfgrammar::{
    Span,
    yacc::{YaccGrammar, YaccKind, YaccOriginalActionKind},
};
use lrpar::{
    LexError, LexParseError, Lexeme, Lexer, LexerTypes, NonStreamingLexer, RTParserBuilder,
    RecoveryKind,
};
use lrtable::{Minimiser, from_yacc};

#[derive(Clone, Copy, Debug, Eq, Hash, PartialEq)]
struct Lx {
    tok: u16,
    start: usize,
    len: usize,
    faulty: bool,
}
impl Lexeme<u16> for Lx {
    fn new(tok: u16, start: usize, len: usize) -> Self {
        Lx { tok, start, len, faulty: false }
    }
    fn new_faulty(tok: u16, start: usize, len: usize) -> Self {
        Lx { tok, start, len, faulty: true }
    }
    fn tok_id(&self) -> u16 {
        self.tok
    }
    fn span(&self) -> Span {
        Span::new(self.start, self.start + self.len)
    }
    fn faulty(&self) -> bool {
        self.faulty
    }
}
impl fmt::Display for Lx {
    fn fmt(&self, f: &mut fmt::Formatter) -> fmt::Result {
        write!(f, "{:?}", self)
    }
}
#[derive(Debug)]
struct LE;
impl fmt::Display for LE {
    fn fmt(&self, _: &mut fmt::Formatter) -> fmt::Result {
        Ok(())
    }
}
impl Error for LE {}
impl LexError for LE {
    fn span(&self) -> Span {
        Span::new(0, 0)
    }
}
#[derive(Debug, Clone)]
struct LT;
impl LexerTypes for LT {
    type LexemeT = Lx;
    type StorageT = u16;
    type LexErrorT = LE;
}
struct VL {
    lexemes: Vec<Lx>,
}
impl Lexer<LT> for VL {
    fn iter<'a>(&'a self) -> Box<dyn Iterator<Item = Result<Lx, LE>> + 'a> {
        Box::new(self.lexemes.iter().map(|x| Ok(*x)))
    }
}
impl<'input> NonStreamingLexer<'input, LT> for VL {
    fn span_str(&self, _: Span) -> &'input str {
        ""
    }
    fn span_lines_str(&self, _: Span) -> &'input str {
        ""
    }
    fn line_col(&self, _: Span) -> ((usize, usize), (usize, usize)) {
        ((1, 1), (1, 1))
    }
}


#[test]
fn eof_token_in_the_middle_is_rejected() {
    // Conflict-free, every rule productive. L(G) = { a }.
    let grm = YaccGrammar::<u16>::new_with_storaget(
        YaccKind::Original(YaccOriginalActionKind::NoAction),
        "%start S\n%%\nS: 'a';",
    )
    .unwrap();
    let (_, stable) = from_yacc(&grm, Minimiser::Pager).unwrap();
    assert!(stable.conflicts().is_none());
    let a = u16::try_from(usize::from(grm.token_idx("a").unwrap())).unwrap();
    // `eof_token_idx()` is one of the grammar's `iter_tidxs()`: a `TIdx` any lexer can put into a
    // lexeme.
    let eof = u16::try_from(usize::from(grm.eof_token_idx())).unwrap();
    assert!(grm.iter_tidxs().any(|t| t == grm.eof_token_idx()));

    // a $ a a : not a sentence ("a" is the only one). `a` is a prefix of a sentence, `a $` is not.
    let lexemes = vec![
        Lx::new(a, 0, 1),
        Lx::new(eof, 2, 1),
        Lx::new(a, 4, 1),
        Lx::new(a, 6, 1),
    ];
    let lexer = VL { lexemes: lexemes.clone() };
    for rk in [RecoveryKind::None, RecoveryKind::CPCTPlus] {
        let (val, errs) = RTParserBuilder::<u16, LT>::new(&grm, &stable)
            .recoverer(rk)
            .parse_map(&lexer, &|_| (), &|_, _| ());
        // C04: "a rejected input yields no value and exactly one parse error, located at the first
        // lexeme [...] such that the lexemes up to and including it are not a prefix of any
        // sentence"; "With recovery on, the first reported error is at that same lexeme."
        assert!(
            !errs.is_empty(),
            "C04 violated ({rk:?}): the token sequence `a $ a a` is not a sentence of S: 'a'; but \
             no error was reported (value: {val:?}); the two lexemes after `$` were never looked at"
        );
        match &errs[0] {
            LexParseError::ParseError(e) => assert_eq!(*e.lexeme(), lexemes[1]),
            _ => unreachable!(),
        }
        if let RecoveryKind::None = rk {
            assert!(val.is_none());
            assert_eq!(errs.len(), 1);
        }
    }
}
